use sodg::verif::Snapshot;
use sodg::{Hex, Label, Sodg};
use std::collections::HashSet;
use std::panic::{catch_unwind, AssertUnwindSafe};

#[derive(Clone, Debug, PartialEq, Eq, Hash)]
enum Op { Add(usize), Bind(usize, usize, u8), Put(usize, u8), Data(usize), Kid(usize), Kids(usize), NextId, Clone, Slice(usize), MergeSelf(usize, usize), MergeTree(usize), Reload, Inspect(usize), VPrint(usize), Xml, Dot, Dbg }
fn lab(l: u8) -> Label { match l { 0 => Label::Alpha(0), 1 => Label::Greek('x'), _ => Label::Str(['f','o','o',' ',' ',' ',' ',' ']) } }
fn dat(d: u8) -> Hex { match d { 0 => Hex::from_slice(&[1,2,3]), _ => Hex::from_slice(&[9,8,7,6,5,4,3,2,1]) } }
const N: usize = 2;
fn apply(g: &mut Sodg<N>, op: &Op, dir: &std::path::Path) -> bool {
    catch_unwind(AssertUnwindSafe(|| match op {
        Op::Add(v) => g.add(*v),
        Op::Bind(a, b, l) => g.bind(*a, *b, lab(*l)),
        Op::Put(v, d) => g.put(*v, &dat(*d)),
        Op::Data(v) => { g.data(*v); }
        Op::Kid(v) => { let _ = g.kid(*v, lab(0)); }
        Op::Kids(v) => { let _ = g.kids(*v).count(); }
        Op::NextId => { g.next_id(); }
        Op::Clone => { *g = g.clone(); }
        Op::Slice(v) => { if let Ok(s) = g.slice(*v) { let _ = s.len(); } }
        Op::MergeSelf(l, r) => { let h = g.clone(); let _ = g.merge(&h, *l, *r); }
        Op::MergeTree(l) => { let mut h: Sodg<N> = Sodg::empty(3); h.add(0); h.add(1); h.add(2); h.bind(0, 1, lab(0)); h.bind(0, 2, lab(1)); h.bind(1, 2, lab(0)); h.put(2, &dat(1)); let _ = g.merge(&h, *l, 0); }
        Op::Reload => { let f = dir.join("r.sodg"); g.save(&f).unwrap(); if let Ok(l) = Sodg::<N>::load(&f) { *g = l; } }
        Op::Inspect(v) => { let _ = g.inspect(*v); }
        Op::VPrint(v) => { let _ = g.v_print(*v); }
        Op::Xml => { let _ = g.to_xml(); }
        Op::Dot => { let _ = g.to_dot(); }
        Op::Dbg => { let _ = format!("{g:?}"); }
    })).is_ok()
}
struct St { g: Sodg<N>, hist: Vec<Op> }
fn main() {
    std::panic::set_hook(Box::new(|_| {}));
    let args: Vec<String> = std::env::args().collect();
    let cap: usize = args[1].parse().unwrap(); let maxd: usize = args[2].parse().unwrap();
    let dir = std::path::PathBuf::from("/dev/shm/asanp"); std::fs::create_dir_all(&dir).unwrap();
    let ids: Vec<usize> = { let mut v: Vec<usize> = (0..cap).collect(); v.push(cap); v.push(cap + 1); v.push(usize::MAX); v };
    let mut ops = vec![];
    for &v in &ids { ops.push(Op::Add(v)); ops.push(Op::Data(v)); ops.push(Op::Kid(v)); ops.push(Op::Kids(v)); ops.push(Op::Slice(v)); ops.push(Op::Inspect(v)); ops.push(Op::VPrint(v)); ops.push(Op::MergeTree(v)); for d in 0..2 { ops.push(Op::Put(v, d)); } }
    for &a in &ids { for &b in &ids { for l in 0..3 { ops.push(Op::Bind(a, b, l)); } if a < cap + 1 && b < cap + 1 { ops.push(Op::MergeSelf(a, b)); } } }
    for o in [Op::NextId, Op::Clone, Op::Reload, Op::Xml, Op::Dot, Op::Dbg] { ops.push(o); }
    println!("ops: {}", ops.len());
    let mut seen: HashSet<Snapshot> = HashSet::new();
    let g0: Sodg<N> = Sodg::empty(cap); seen.insert(g0.verif_snapshot());
    let mut frontier = vec![St { g: g0, hist: vec![] }];
    let (mut tr, mut panics) = (0usize, 0usize);
    for depth in 1..=maxd {
        let mut next = vec![];
        for st in &frontier { for op in &ops {
            tr += 1;
            let mut g = st.g.clone();
            // journal current history for post-mortem
            if false { let mut h = st.hist.clone(); h.push(op.clone()); std::fs::write(dir.join("journal.txt"), format!("{:?}", h)).unwrap(); }
            if !apply(&mut g, op, &dir) { panics += 1; }
            let snap = match catch_unwind(AssertUnwindSafe(|| g.verif_snapshot())) { Ok(s) => s, Err(_) => continue };
            if seen.insert(snap) { let mut h = st.hist.clone(); h.push(op.clone()); next.push(St { g, hist: h }); }
        } }
        println!("depth {depth}: new {} total {} transitions {tr} panics {panics}", next.len(), seen.len());
        if next.is_empty() { break; }
        frontier = next;
    }
}
