
use crate::{Label, Persistence, Sodg, Hex};

#[derive(Clone, Debug, PartialEq, Eq, Hash)]
pub struct VertexSnap {
    pub branch: usize,
    pub persistence: u8,
    pub heap: bool,
    pub data: Vec<u8>,
    pub edges: Vec<(Label, usize)>,
}

#[derive(Clone, Debug, PartialEq, Eq, Hash)]
pub struct Snapshot {
    pub vertices: Vec<Option<VertexSnap>>,
    pub branches: Vec<Option<Vec<usize>>>,
    pub stores: Vec<Option<usize>>,
    pub next_v: usize,
}

impl<const N: usize> Sodg<N> {
    pub fn verif_snapshot(&self) -> Snapshot {
        let cap = self.vertices.capacity();
        let mut vertices = Vec::with_capacity(cap);
        for v in 0..cap {
            vertices.push(self.vertices.get(v).map(|vtx| VertexSnap {
                branch: vtx.branch,
                persistence: match vtx.persistence { Persistence::Empty => 0, Persistence::Stored => 1, Persistence::Taken => 2 },
                heap: matches!(vtx.data, Hex::Vector(_)),
                data: vtx.data.bytes().to_vec(),
                edges: vtx.edges.iter().map(|(a, t)| (*a, *t)).collect(),
            }));
        }
        let mut branches = vec![];
        for b in 0..self.branches.capacity() {
            branches.push(self.branches.get(b).map(|m| m.into_iter().collect::<Vec<usize>>()));
        }
        let mut stores = vec![];
        for b in 0..self.stores.capacity() {
            stores.push(self.stores.get(b).copied());
        }
        Snapshot { vertices, branches, stores, next_v: self.next_v }
    }
}
