use sodg::verif::Snapshot;
use sodg::{Hex, Label, Sodg};
use std::collections::{BTreeMap, BTreeSet, HashMap, HashSet};
use std::panic::{catch_unwind, AssertUnwindSafe};

#[derive(Clone, Debug, PartialEq, Eq, Hash)]
enum Op { Add(usize), Bind(usize, usize, u8), Put(usize, u8), Data(usize), NextAdd, NextId, CloneSwap, Reload, Merge(usize, usize) }

#[derive(Clone, Debug, PartialEq, Eq, Hash, Default)]
struct MV { edges: Vec<(u8, usize)>, data: Option<u8>, unread: bool, group: Option<usize> }

#[derive(Clone, Debug, PartialEq, Eq, Hash, Default)]
struct Model { present: BTreeMap<usize, MV>, next_group: usize, pos: usize }

impl Model {
    fn group_members(&self, g: usize) -> Vec<usize> { self.present.iter().filter(|(_, m)| m.group == Some(g)).map(|(v, _)| *v).collect() }
    fn groups_alive(&self) -> usize { self.present.values().filter_map(|m| m.group).collect::<BTreeSet<_>>().len() }
    // returns None if op is out of limits/preconditions
    fn enabled(&self, op: &Op, cap: usize, n: usize) -> bool {
        match op {
            Op::Add(v) => *v < cap,
            Op::Bind(a, b, l) => {
                if a == b || !self.present.contains_key(a) || !self.present.contains_key(b) { return false; }
                let va = &self.present[a]; let vb = &self.present[b];
                if !va.edges.iter().any(|(x, _)| x == l) && va.edges.len() >= n { return false; }
                match (va.group, vb.group) {
                    (None, None) => self.groups_alive() < 14,
                    (Some(g), None) | (None, Some(g)) => self.group_members(g).len() < 16,
                    _ => true,
                }
            }
            Op::Put(v, _) | Op::Data(v) => self.present.contains_key(v),
            Op::NextAdd | Op::NextId => (self.pos..cap).any(|v| !self.present.contains_key(&v)),
            Op::CloneSwap | Op::Reload => true,
            Op::Merge(k, left) => {
                if !self.present.contains_key(left) || !self.is_tree() { return false; }
                // count new vertices and check label capacity / group size
                let mut need = 0usize; let mut okn = true;
                self.merge_walk(&htree(*k), 0, Some(*left), &mut |gl, a, exists| { if !exists { need += 1; if let Some(g) = gl { let e = &self.present[&g].edges; if !e.iter().any(|(x, _)| *x == a) && e.len() >= n { okn = false; } } } });
                let free = (self.pos..cap).filter(|v| !self.present.contains_key(v)).count();
                let grp = self.present[left].group.map(|g| self.group_members(g).len()).unwrap_or(1);
                okn && need <= free && grp + need <= 16 && (self.present[left].group.is_some() || need == 0 || self.groups_alive() < 14)
            }
        }
    }
    fn is_tree(&self) -> bool {
        let mut indeg: BTreeMap<usize, usize> = self.present.keys().map(|v| (*v, 0)).collect();
        for (_, m) in &self.present { for (_, t) in &m.edges { match indeg.get_mut(t) { Some(c) => *c += 1, None => return false } } }
        let roots: Vec<usize> = indeg.iter().filter(|(_, c)| **c == 0).map(|(v, _)| *v).collect();
        if roots.len() != 1 || indeg.values().any(|c| *c > 1) { return false; }
        let mut seen = BTreeSet::new(); let mut todo = vec![roots[0]];
        while let Some(v) = todo.pop() { if seen.insert(v) { for (_, t) in &self.present[&v].edges { todo.push(*t); } } }
        seen.len() == self.present.len()
    }
    // walk h from node hn mapped onto g vertex gl (None = would-be-new vertex); callback(gl, label, exists)
    fn merge_walk(&self, h: &HTree, hn: usize, gl: Option<usize>, cb: &mut dyn FnMut(Option<usize>, u8, bool)) {
        for (a, hc) in &h.kids[hn] {
            let t = gl.and_then(|g| self.present[&g].edges.iter().find(|(x, _)| x == a).map(|(_, t)| *t));
            cb(gl, *a, t.is_some());
            self.merge_walk(h, *hc, t, cb);
        }
    }
    fn apply_merge(&mut self, h: &HTree, hn: usize, gl: usize, cap: usize, resolve: &dyn Fn(usize, u8) -> Option<usize>, errs: &mut Vec<String>) {
        if let Some(d) = h.data[hn] { self.apply(&Op::Put(gl, d), cap); }
        for (a, hc) in &h.kids[hn] {
            let t = self.present[&gl].edges.iter().find(|(x, _)| x == a).map(|(_, t)| *t);
            let t = match t { Some(t) => t, None => {
                match resolve(gl, *a) { None => { errs.push("path-missing".into()); return; } Some(id) => {
                    if self.present.contains_key(&id) { errs.push(format!("new-id-{id}-was-present")); return; }
                    if id >= cap || id < self.pos { errs.push(format!("new-id-{id}-not-fresh(pos={})", self.pos)); }
                    self.pos = self.pos.max(id + 1);
                    self.apply(&Op::Add(id), cap); self.apply(&Op::Bind(gl, id, *a), cap); id } } } };
            self.apply_merge(h, *hc, t, cap, resolve, errs);
        }
    }
    fn apply(&mut self, op: &Op, cap: usize) -> Option<Option<u8>> {
        match op {
            Op::Add(v) => { self.present.entry(*v).or_default(); None }
            Op::Bind(a, b, l) => {
                let ga = self.present[a].group; let gb = self.present[b].group;
                let va = self.present.get_mut(a).unwrap();
                if let Some(e) = va.edges.iter_mut().find(|(x, _)| x == l) { e.1 = *b; } else { va.edges.push((*l, *b)); }
                match (ga, gb) {
                    (None, None) => { let g = self.next_group; self.next_group += 1; self.present.get_mut(a).unwrap().group = Some(g); self.present.get_mut(b).unwrap().group = Some(g); }
                    (Some(g), None) => { self.present.get_mut(b).unwrap().group = Some(g); }
                    (None, Some(g)) => { self.present.get_mut(a).unwrap().group = Some(g); }
                    _ => {}
                }
                None
            }
            Op::Put(v, d) => { let m = self.present.get_mut(v).unwrap(); m.data = Some(*d); m.unread = true; None }
            Op::Data(v) => {
                let m = self.present.get_mut(v).unwrap();
                let r = m.data;
                if m.unread {
                    m.unread = false;
                    if let Some(g) = m.group {
                        let mem = self.group_members(g);
                        if !mem.iter().any(|x| self.present[x].unread) { for x in mem { self.present.remove(&x); } }
                    }
                }
                Some(r)
            }
            Op::NextAdd => {
                let id = (self.pos..cap).find(|v| !self.present.contains_key(v)).unwrap();
                self.pos = id + 1; self.present.entry(id).or_default(); None
            }
            Op::NextId => { let id = (self.pos..cap).find(|v| !self.present.contains_key(v)).unwrap(); self.pos = id + 1; None }
            Op::CloneSwap => None,
            Op::Reload => { self.pos = 0; None }
            Op::Merge(..) => unreachable!(),
        }
    }
    // canonical: rename groups by smallest member
    fn canon(&self) -> Model {
        let mut m = self.clone();
        let mut ren: HashMap<usize, usize> = HashMap::new();
        for (v, mv) in m.present.iter_mut() { if let Some(g) = mv.group { let n = *ren.entry(g).or_insert(*v); mv.group = Some(n); } }
        m.next_group = 0; m
    }
}

struct HTree { kids: Vec<Vec<(u8, usize)>>, data: Vec<Option<u8>> }
fn htree(k: usize) -> HTree { match k {
    0 => HTree { kids: vec![vec![]], data: vec![Some(0)] },
    1 => HTree { kids: vec![vec![(0, 1)], vec![]], data: vec![None, Some(0)] },
    _ => HTree { kids: vec![vec![(0, 1), (1, 2)], vec![], vec![]], data: vec![Some(0), None, None] },
} }
fn hreal(k: usize) -> Sodg<N> { let h = htree(k); let mut g: Sodg<N> = Sodg::empty(8); let off = 3; for i in 0..h.kids.len() { g.add(off + i); } for i in 0..h.kids.len() { for (a, c) in &h.kids[i] { g.bind(off + i, off + *c, lab(*a)); } } for i in 0..h.kids.len() { if let Some(d) = h.data[i] { g.put(off + i, &dat(d)); } } g }
fn lab(l: u8) -> Label { match l { 0 => Label::Alpha(0), 1 => Label::Greek('x'), _ => Label::Str(['f','o','o',' ',' ',' ',' ',' ']) } }
fn dat(d: u8) -> Hex { match d { 0 => Hex::from_slice(&[1,2,3,4,5,6,7,8]), _ => Hex::from_slice(&[9,8,7,6,5,4,3,2,1]) } }

const N: usize = 2;
fn apply_real(g: &mut Sodg<N>, op: &Op) -> Result<Option<Option<Vec<u8>>>, ()> {
    catch_unwind(AssertUnwindSafe(|| match op {
        Op::Add(v) => { g.add(*v); None }
        Op::Bind(a, b, l) => { g.bind(*a, *b, lab(*l)); None }
        Op::Put(v, d) => { g.put(*v, &dat(*d)); None }
        Op::Data(v) => Some(g.data(*v).map(|h| h.to_vec())),
        Op::NextAdd => { let id = g.next_id(); g.add(id); None }
        Op::NextId => { let id = g.next_id(); Some(Some(vec![id as u8])) }
        Op::CloneSwap => { *g = g.clone(); None }
        Op::Reload => { let f = std::path::PathBuf::from(format!("/dev/shm/mcprobe/r{:?}.sodg", std::thread::current().id())); g.save(&f).unwrap(); *g = Sodg::load(&f).unwrap(); None }
        Op::Merge(k, left) => { let h = hreal(*k); g.merge(&h, *left, 3).unwrap(); None }
    })).map_err(|_| ())
}

struct St { g: Sodg<N>, m: Model, hist: Vec<Op> }

fn h128<T: std::hash::Hash>(t: &T) -> u128 {
    use std::hash::{Hasher, BuildHasher, Hash};
    let mut a = std::collections::hash_map::DefaultHasher::new(); t.hash(&mut a);
    let mut b = std::collections::hash_map::DefaultHasher::new(); b.write_u64(0xdeadbeef); t.hash(&mut b);
    let _ = std::collections::hash_map::RandomState::new().build_hasher();
    ((a.finish() as u128) << 64) | b.finish() as u128
}
fn main() {
    std::panic::set_hook(Box::new(|_| {}));
    let args: Vec<String> = std::env::args().collect();
    let cap: usize = args[1].parse().unwrap();
    let nl: u8 = args[2].parse().unwrap();
    let nd: u8 = args[3].parse().unwrap();
    let maxd: usize = args[4].parse().unwrap();
    let mut ops = vec![];
    for v in 0..cap { ops.push(Op::Add(v)); }
    for a in 0..cap { for b in 0..cap { for l in 0..nl { ops.push(Op::Bind(a, b, l)); } } }
    for v in 0..cap { for d in 0..nd { ops.push(Op::Put(v, d)); } }
    for v in 0..cap { ops.push(Op::Data(v)); }
    ops.push(Op::NextAdd); ops.push(Op::NextId); ops.push(Op::CloneSwap); ops.push(Op::Reload);
    for k in 0..3 { for v in 0..cap { ops.push(Op::Merge(k, v)); } }
    let mut seen: HashSet<u128> = HashSet::new();
    let g0: Sodg<N> = Sodg::empty(cap);
    seen.insert(h128(&(g0.verif_snapshot(), Model::default())));
    let mut frontier = vec![St { g: g0, m: Model::default(), hist: vec![] }];
    let probe = args.len() > 5 && args[5] == "probe"; let keep_hist = !(args.len() > 5 && args[5] == "nohist");
    let dir = std::path::PathBuf::from("/dev/shm/mcprobe"); std::fs::create_dir_all(&dir).unwrap();
    let (mut clone_bad, mut load_bad, mut cuts, mut cut_ok, mut cut_panic) = (0usize, 0usize, 0usize, 0usize, 0usize);
    let mut images: HashSet<Vec<u8>> = HashSet::new();
    let mut merges = [0usize; 3]; let mut reloads = 0usize;
    let mut transitions = 0usize; let mut viol: BTreeMap<String, (usize, Vec<Op>)> = BTreeMap::new();
    let t0 = std::time::Instant::now();
    for depth in 1..=maxd {
        let mut next = vec![];
        for st in &frontier {
            for op in &ops {
                if !st.m.enabled(op, cap, N) { continue; }
                transitions += 1; if let Op::Merge(k, _) = op { merges[*k] += 1; } if matches!(op, Op::Reload) { reloads += 1; }
                let mut g = st.g.clone(); let mut m = st.m.clone();
                let got = apply_real(&mut g, op);
                let mut merr: Vec<String> = vec![];
                let exp = match op {
                    Op::Merge(k, left) => { if got.is_ok() { let gr = &g; m.apply_merge(&htree(*k), 0, *left, cap, &|gl, a| gr.kid(gl, lab(a)), &mut merr); } None }
                    Op::NextId => { let pos = m.pos; m.apply(op, cap); if let Ok(Some(Some(r))) = &got { let id = r[0] as usize; if id + 1 != m.pos || id < pos { merr.push(format!("nextid {id} model pos {}", m.pos)); } } None }
                    _ => m.apply(op, cap),
                };
                let got = match (op, got) { (Op::NextId, Ok(_)) => Ok(None), (_, g) => g };
                let mut bad: Option<String> = merr.first().cloned();
                match got {
                    Err(()) => bad = Some(format!("panic:{:?}", std::mem::discriminant(op))),
                    Ok(r) => {
                        if let (Some(e), Some(r)) = (exp, &r) {
                            let e2 = e.map(|d| dat(d).to_vec());
                            if &e2 != r { bad = Some("data-mismatch".into()); }
                        }
                        let keys: Vec<usize> = g.keys();
                        let mk: Vec<usize> = m.present.keys().copied().collect();
                        if keys != mk { bad = Some(format!("alive-mismatch:{:?}", std::mem::discriminant(op))); }
                        else {
                            for (v, mv) in &m.present {
                                let k: Vec<(Label, usize)> = g.kids(*v).map(|(a, t)| (*a, *t)).collect();
                                let e: Vec<(Label, usize)> = mv.edges.iter().map(|(l, t)| (lab(*l), *t)).collect();
                                if k != e { bad = Some("edges-mismatch".into()); }
                            }
                        }
                    }
                }
                let mut h: Vec<Op> = if keep_hist { st.hist.clone() } else { vec![] }; h.push(op.clone());
                if let Some(b) = bad { let e = viol.entry(b).or_insert((0, h)); e.0 += 1; continue; }
                let key = h128(&(g.verif_snapshot(), m.canon()));
                if seen.insert(key) {
                    if probe {
                        let snap = g.verif_snapshot();
                        let c = g.clone();
                        if c.verif_snapshot() != snap { clone_bad += 1; }
                        let f = dir.join("s.sodg");
                        g.save(&f).unwrap();
                        let l: Sodg<N> = Sodg::load(&f).unwrap();
                        let mut a = snap.clone(); a.next_v = 0;
                        if l.verif_snapshot() != a { load_bad += 1; }
                        let bytes = std::fs::read(&f).unwrap();
                        if images.insert(bytes.clone()) {
                            for k in 0..bytes.len() {
                                let p = dir.join("t.sodg"); std::fs::write(&p, &bytes[..k]).unwrap();
                                cuts += 1;
                                match catch_unwind(|| Sodg::<N>::load(&p).is_ok()) { Ok(true) => cut_ok += 1, Ok(false) => {}, Err(_) => cut_panic += 1 }
                            }
                        }
                    }
                    next.push(St { g, m, hist: h });
                }
            }
        }
        println!("depth {depth}: new {} total {} transitions {} viol-kinds {} t={:?}", next.len(), seen.len(), transitions, viol.len(), t0.elapsed());
        if next.is_empty() { println!("CLOSED at depth {depth}"); break; }
        frontier = next;
    }
    println!("merges per right tree: {:?} reloads: {}", merges, reloads);
    println!("probe: clone_bad={clone_bad} load_bad={load_bad} distinct_images={} cuts={cuts} cut_ok={cut_ok} cut_panic={cut_panic}", images.len());
    for (k, (c, h)) in &viol { println!("{k} x{c}: {:?}", h); }
}
