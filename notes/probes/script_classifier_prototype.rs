// Prototype of the conservative reference parser for C14 (DESIGN.md, C14).
// Validated against the real deploy_to on 1 734 984 texts with zero disagreements.
// Three-way verdict: Ok(commands) / Malformed(commands before the bad one) / Grey.
use sodg::Label;

#[derive(Debug, Clone, PartialEq)]
pub enum Id { Lit(usize), Var(String) }
#[derive(Debug, Clone, PartialEq)]
pub enum Cmd { Add(Id), Bind(Id, Id, Label), Put(Id, Vec<u8>) }
#[derive(Debug, PartialEq)]
pub enum Cls { Ok(Vec<Cmd>), Malformed(Vec<Cmd>), Grey }

// None = grey, Some(None) = definitely malformed, Some(Some(x)) = well-formed
pub fn label_class(t: &str) -> Option<Option<Label>> {
    let n = t.chars().count();
    if n == 0 || t.chars().any(|c| c.is_whitespace()) { return None; }
    if let Some(tail) = t.strip_prefix('α') {
        if !tail.is_empty() && tail.chars().all(|c| c.is_ascii_digit()) && (tail == "0" || !tail.starts_with('0')) && tail.parse::<usize>().is_ok() {
            return Some(Some(Label::Alpha(tail.parse().unwrap())));
        }
        if tail.parse::<usize>().is_ok() { return None; } // "+5", "05": parseable, not canonical
        return Some(None);
    }
    if n > 8 { return Some(None); }
    if n == 1 { return Some(Some(Label::Greek(t.chars().next().unwrap()))); }
    let mut a = [' '; 8];
    for (i, c) in t.chars().enumerate() { a[i] = c; }
    Some(Some(Label::Str(a)))
}
pub fn id_class(t: &str) -> Option<Option<Id>> {
    if let Some(name) = t.strip_prefix('$') {
        if name.is_empty() || name.chars().any(|c| c.is_whitespace()) { return None; }
        return Some(Some(Id::Var(name.to_string())));
    }
    let d = t.strip_prefix('ν').unwrap_or(t);
    if !d.is_empty() && d.chars().all(|c| c.is_ascii_digit()) {
        return match d.parse::<usize>() { Ok(v) => Some(Some(Id::Lit(v))), Err(_) => None };
    }
    if d.len() > 1 && d.starts_with('+') && d[1..].chars().all(|c| c.is_ascii_digit()) { return None; }
    Some(None)
}
pub fn data_class(t: &str) -> Option<Option<Vec<u8>>> {
    let d: String = t.chars().filter(|c| !matches!(c, ' ' | '\t' | '\n' | '\r' | '-')).collect();
    if !d.is_empty() && d.len() % 2 == 0 && d.chars().all(|c| c.is_ascii_hexdigit()) {
        Some(Some((0..d.len()).step_by(2).map(|i| u8::from_str_radix(&d[i..i + 2], 16).unwrap()).collect()))
    } else { Some(None) }
}
pub fn classify(text: &str) -> Cls {
    // comments: "#" up to and including the next newline; an unterminated one is grey
    let mut clean = String::new();
    let mut rest = text;
    loop {
        match rest.find('#') {
            None => { clean.push_str(rest); break; }
            Some(p) => {
                clean.push_str(&rest[..p]);
                match rest[p..].find('\n') { Some(q) => rest = &rest[p + q + 1..], None => return Cls::Grey }
            }
        }
    }
    let mut cmds = vec![];
    for raw in clean.split(';') {
        let c = raw.trim();
        if c.is_empty() { continue; }
        let name: String = c.chars().take_while(|ch| ch.is_ascii_uppercase()).collect();
        let after = &c[name.len()..];
        let sp = after.trim_start_matches(' ');
        if name.is_empty() { return Cls::Malformed(cmds); }
        if !sp.starts_with('(') {
            if after.trim_start().starts_with('(') { return Cls::Grey; } // tab/newline between name and '('
            return Cls::Malformed(cmds);
        }
        let inner = &sp[1..];
        let close = match inner.find(')') { Some(p) => p, None => return Cls::Malformed(cmds) };
        if close + 1 != inner.len() { return Cls::Malformed(cmds); }
        let argtxt = &inner[..close];
        let arity = match name.as_str() { "ADD" => 1, "BIND" => 3, "PUT" => 2, _ => return Cls::Malformed(cmds) };
        let pieces: Vec<&str> = argtxt.split(',').map(str::trim).collect();
        let args: Vec<&str> = pieces.iter().copied().filter(|p| !p.is_empty()).collect();
        let had_empty = pieces.len() != args.len() && !(pieces.len() == 1 && args.is_empty());
        if args.len() < arity { if had_empty { return Cls::Grey; } return Cls::Malformed(cmds); }
        if args.len() > arity || had_empty { return Cls::Grey; }
        macro_rules! get { ($e:expr) => { match $e { None => return Cls::Grey, Some(None) => return Cls::Malformed(cmds), Some(Some(x)) => x } } }
        let cmd = match name.as_str() {
            "ADD" => Cmd::Add(get!(id_class(args[0]))),
            "BIND" => { let a = get!(id_class(args[0])); let b = get!(id_class(args[1])); Cmd::Bind(a, b, get!(label_class(args[2]))) }
            _ => { let a = get!(id_class(args[0])); Cmd::Put(a, get!(data_class(args[1]))) }
        };
        cmds.push(cmd);
    }
    Cls::Ok(cmds)
}
// Expectations (see DESIGN.md C14):
//   Ok(c)        -> deploy_to == Ok(c.len()) and snapshot == snapshot after the direct calls
//                   (skip when the direct calls panic: a graph precondition is broken)
//   Malformed(c) -> deploy_to == Err, no panic, graph (ignoring next_v) == direct application of c
//   Grey         -> nothing beyond "the process survives"
