use sodg::verif::Snapshot;
use sodg::{Hex, Label, Sodg};
use std::collections::{BTreeMap, BTreeSet, HashMap};
use std::panic::{catch_unwind, AssertUnwindSafe};

#[derive(Clone, Debug, PartialEq, Eq, Hash)]
enum Op { Add(usize), Bind(usize, usize, u8), Put(usize, u8), Data(usize), NextAdd }

#[derive(Clone, Debug, PartialEq, Eq, Hash, Default)]
struct MV { edges: Vec<(u8, usize)>, data: Option<u8>, unread: bool, group: Option<usize> }

#[derive(Clone, Debug, PartialEq, Eq, Hash, Default)]
struct Model { present: BTreeMap<usize, MV>, next_group: usize, pos: usize }

impl Model {
    fn group_members(&self, g: usize) -> Vec<usize> { self.present.iter().filter(|(_, m)| m.group == Some(g)).map(|(v, _)| *v).collect() }
    fn groups_alive(&self) -> usize { self.present.values().filter_map(|m| m.group).collect::<BTreeSet<_>>().len() }
    // returns None if op is out of limits/preconditions
    fn enabled(&self, op: &Op, cap: usize, n: usize) -> bool {
        match op {
            Op::Add(v) => *v < cap,
            Op::Bind(a, b, l) => {
                if a == b || !self.present.contains_key(a) || !self.present.contains_key(b) { return false; }
                let va = &self.present[a]; let vb = &self.present[b];
                if !va.edges.iter().any(|(x, _)| x == l) && va.edges.len() >= n { return false; }
                match (va.group, vb.group) {
                    (None, None) => self.groups_alive() < 14,
                    (Some(g), None) | (None, Some(g)) => self.group_members(g).len() < 16,
                    _ => true,
                }
            }
            Op::Put(v, _) | Op::Data(v) => self.present.contains_key(v),
            Op::NextAdd => (self.pos..cap).any(|v| !self.present.contains_key(&v)),
        }
    }
    fn apply(&mut self, op: &Op, cap: usize) -> Option<Option<u8>> {
        match op {
            Op::Add(v) => { self.present.entry(*v).or_default(); None }
            Op::Bind(a, b, l) => {
                let ga = self.present[a].group; let gb = self.present[b].group;
                let va = self.present.get_mut(a).unwrap();
                if let Some(e) = va.edges.iter_mut().find(|(x, _)| x == l) { e.1 = *b; } else { va.edges.push((*l, *b)); }
                match (ga, gb) {
                    (None, None) => { let g = self.next_group; self.next_group += 1; self.present.get_mut(a).unwrap().group = Some(g); self.present.get_mut(b).unwrap().group = Some(g); }
                    (Some(g), None) => { self.present.get_mut(b).unwrap().group = Some(g); }
                    (None, Some(g)) => { self.present.get_mut(a).unwrap().group = Some(g); }
                    _ => {}
                }
                None
            }
            Op::Put(v, d) => { let m = self.present.get_mut(v).unwrap(); m.data = Some(*d); m.unread = true; None }
            Op::Data(v) => {
                let m = self.present.get_mut(v).unwrap();
                let r = m.data;
                if m.unread {
                    m.unread = false;
                    if let Some(g) = m.group {
                        let mem = self.group_members(g);
                        if !mem.iter().any(|x| self.present[x].unread) { for x in mem { self.present.remove(&x); } }
                    }
                }
                Some(r)
            }
            Op::NextAdd => {
                let id = (self.pos..cap).find(|v| !self.present.contains_key(v)).unwrap();
                self.pos = id + 1; self.present.entry(id).or_default(); None
            }
        }
    }
    // canonical: rename groups by smallest member
    fn canon(&self) -> Model {
        let mut m = self.clone();
        let mut ren: HashMap<usize, usize> = HashMap::new();
        for (v, mv) in m.present.iter_mut() { if let Some(g) = mv.group { let n = *ren.entry(g).or_insert(*v); mv.group = Some(n); } }
        m.next_group = 0; m
    }
}

fn lab(l: u8) -> Label { match l { 0 => Label::Alpha(0), 1 => Label::Greek('x'), _ => Label::Str(['f','o','o',' ',' ',' ',' ',' ']) } }
fn dat(d: u8) -> Hex { match d { 0 => Hex::from_slice(&[1,2,3,4,5,6,7,8]), _ => Hex::from_slice(&[9,8,7,6,5,4,3,2,1]) } }

const N: usize = 2;
fn apply_real(g: &mut Sodg<N>, op: &Op) -> Result<Option<Option<Vec<u8>>>, ()> {
    catch_unwind(AssertUnwindSafe(|| match op {
        Op::Add(v) => { g.add(*v); None }
        Op::Bind(a, b, l) => { g.bind(*a, *b, lab(*l)); None }
        Op::Put(v, d) => { g.put(*v, &dat(*d)); None }
        Op::Data(v) => Some(g.data(*v).map(|h| h.to_vec())),
        Op::NextAdd => { let id = g.next_id(); g.add(id); None }
    })).map_err(|_| ())
}


use stateright::{Checker, Model as SrModel, Property};
use std::hash::{Hash, Hasher};

struct SendSodg(Sodg<N>);
unsafe impl Send for SendSodg {}
unsafe impl Sync for SendSodg {}

struct S { g: SendSodg, m: Model, snap: Snapshot, ok: bool }
impl Clone for S { fn clone(&self) -> Self { S { g: SendSodg(self.g.0.clone()), m: self.m.clone(), snap: self.snap.clone(), ok: self.ok } } }
impl Hash for S { fn hash<H: Hasher>(&self, h: &mut H) { self.snap.hash(h); self.m.canon().hash(h); } }
impl PartialEq for S { fn eq(&self, o: &Self) -> bool { self.snap == o.snap && self.m.canon() == o.m.canon() } }
impl std::fmt::Debug for S { fn fmt(&self, f: &mut std::fmt::Formatter) -> std::fmt::Result { write!(f, "{:?}", self.snap) } }

struct Sys { cap: usize, ops: Vec<Op> }
impl SrModel for Sys {
    type State = S; type Action = Op;
    fn init_states(&self) -> Vec<S> { let g: Sodg<N> = Sodg::empty(self.cap); let snap = g.verif_snapshot(); vec![S { g: SendSodg(g), m: Model::default(), snap, ok: true }] }
    fn actions(&self, s: &S, a: &mut Vec<Op>) { for op in &self.ops { if s.m.enabled(op, self.cap, N) { a.push(op.clone()); } } }
    fn next_state(&self, s: &S, op: Op) -> Option<S> {
        let mut g = s.g.0.clone(); let mut m = s.m.clone();
        let exp = m.apply(&op, self.cap);
        let got = apply_real(&mut g, &op);
        let mut ok = true;
        match got { Err(()) => ok = false, Ok(r) => {
            if let (Some(e), Some(r)) = (exp, &r) { if &e.map(|d| dat(d).to_vec()) != r { ok = false; } }
            if g.keys() != m.present.keys().copied().collect::<Vec<usize>>() { ok = false; }
        } }
        let snap = g.verif_snapshot();
        Some(S { g: SendSodg(g), m, snap, ok })
    }
    fn properties(&self) -> Vec<Property<Self>> { vec![Property::always("impl agrees with model", |_, s: &S| s.ok)] }
}
fn main() {
    std::panic::set_hook(Box::new(|_| {}));
    let args: Vec<String> = std::env::args().collect();
    let cap: usize = args[1].parse().unwrap(); let nl: u8 = args[2].parse().unwrap(); let nd: u8 = args[3].parse().unwrap();
    let mut ops = vec![];
    for v in 0..cap { ops.push(Op::Add(v)); }
    for a in 0..cap { for b in 0..cap { for l in 0..nl { ops.push(Op::Bind(a, b, l)); } } }
    for v in 0..cap { for d in 0..nd { ops.push(Op::Put(v, d)); } }
    for v in 0..cap { ops.push(Op::Data(v)); }
    ops.push(Op::NextAdd);
    let t0 = std::time::Instant::now();
    let c = Sys { cap, ops }.checker().threads(16).spawn_bfs().join();
    println!("stateright: unique_states={} states_generated={} max_depth={} discoveries={} t={:?}", c.unique_state_count(), c.state_count(), c.max_depth(), c.discoveries().len(), t0.elapsed());
}
