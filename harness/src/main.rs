//! vx - the verification engines. `vx check <property> <quick|thorough>`,
//! `vx replay <file>`.

fn main() {
    vx::real::install_panic_hook();
    let args: Vec<String> = std::env::args().collect();
    let code = match args.get(1).map(String::as_str) {
        Some("check") => {
            let prop = args.get(2).expect("property id");
            // the tier named on the command line wins; VERIF_TIER only fills in when it is absent
            let tier = args.get(3).cloned().or_else(|| std::env::var("VERIF_TIER").ok()).filter(|t| t == "quick" || t == "thorough").unwrap_or_else(|| "quick".to_string());
            match vx::props::run(prop, &tier) {
                Some(o) => vx::report::finish(o),
                None => {
                    println!("unknown property {prop}");
                    2
                }
            }
        }
        Some("replay") => vx::replay::replay_file(args.get(2).expect("path")),
        _ => {
            println!("usage: vx check <property> <quick|thorough> | vx replay <file>");
            2
        }
    };
    vx::real::remove_scratch_dir();
    std::process::exit(code);
}
