//! vx - the verification engines. `vx check <property> <quick|thorough>`,
//! `vx replay <file>`.

fn main() {
    // anyhow captures a backtrace per error when backtraces are enabled: very slow (global
    // lock + unwinding) for the millions of expected Err results; must be set before first use
    std::env::set_var("RUST_LIB_BACKTRACE", "0");
    std::env::set_var("RUST_BACKTRACE", "0");
    vx::real::install_panic_hook();
    let args: Vec<String> = std::env::args().collect();
    let code = match args.get(1).map(String::as_str) {
        Some("check") => {
            let prop = args.get(2).expect("property id");
            // the tier named on the command line wins; VERIF_TIER only fills in when it is absent
            let tier = args.get(3).cloned().or_else(|| std::env::var("VERIF_TIER").ok()).filter(|t| t == "quick" || t == "thorough").unwrap_or_else(|| "quick".to_string());
            match vx::props::run(prop, &tier) {
                Some(o) => vx::report::finish(o),
                None => {
                    println!("unknown property {prop}");
                    2
                }
            }
        }
        Some("hx") => {
            // ad-hoc exploration: vx hx <prop> <n> <cap> <ids,..> <labels,..> <data,..> <depth|0> <wall_s> [all] [drain] [track]
            let list = |s: &str| -> Vec<usize> { s.split(',').filter(|x| !x.is_empty()).map(|x| x.parse().unwrap()).collect() };
            let prop: &'static str = Box::leak(args[2].clone().into_boxed_str());
            let l8 = |s: &str| -> Vec<u8> { list(s).into_iter().map(|x| x as u8).collect() };
            let mut c = vx::hx::HxCfg::new(prop, "adhoc", args[3].parse().unwrap(), args[4].parse().unwrap(), &list(&args[5]), &l8(&args[6]), &l8(&args[7]));
            let d: usize = args[8].parse().unwrap();
            c.max_depth = if d == 0 { usize::MAX } else { d };
            c.wall = std::time::Duration::from_secs(args[9].parse().unwrap());
            for f in &args[10..] {
                match f.as_str() {
                    "all" => { c.clone_swap = true; c.reload_swap = true; c.merges = vec![0, 1, 2]; }
                    "clone" => c.clone_swap = true,
                    "reload" => c.reload_swap = true,
                    "merge" => c.merges = vec![0, 1, 2],
                    "drain" => c.probes.drain = true,
                    "cuts" => c.probes.cuts = true,
                    "reloadp" => c.probes.reload = true,
                    "clonep" => c.probes.clone = true,
                    "slice" => c.probes.slice = true,
                    "exports" => c.probes.exports = true,
                    "texts" => c.probes.texts = true,
                    "track" => c.track_returned = true,
                    "nonext" => { c.next_id = false; c.add_next = false; }
                    _ => panic!("flag {f}"),
                }
            }
            let r = vx::hx::run(&c);
            println!("{}", r.cfg);
            println!("states {} transitions {} depth {} closed {} cap {:?} widest {} wall {:.1}s key-bytes/state {}", r.states, r.transitions, r.depth_completed, r.closed, r.cap_hit, r.widest_level, r.wall_s, r.key_bytes / r.states.max(1));
            println!("violations {} {:?}; diverged {} {:?}", r.violation_count, r.violation_kinds, r.diverged_other, r.diverged_kinds);
            for v in &r.violations {
                println!("  {} :: {}\n     {}", v.kind, vx::model::hist_text(&v.history), v.detail);
            }
            println!("counters {:?}", r.counters);
            0
        }
        Some("journal-verdict") => {
            // vx journal-verdict <property> <tier> <journal file> <how the engine ended>
            let (prop, tier, path, how) = (&args[2], &args[3], &args[4], args.get(5).cloned().unwrap_or_default());
            vx::report::journal_verdict(prop, tier, path, &how)
        }
        Some("replay") => vx::replay::replay_file(args.get(2).expect("path")),
        _ => {
            println!("usage: vx check <property> <quick|thorough> | vx replay <file>");
            2
        }
    };
    vx::real::remove_scratch_dir();
    std::process::exit(code);
}
