pub mod gen;
pub mod hx;
pub mod menu;
pub mod model;
pub mod probes;
pub mod props;
pub mod real;
pub mod replay;
pub mod report;

/// Dispatch on the edge capacity N (a const generic of `Sodg`).
#[macro_export]
macro_rules! with_n {
    ($n:expr, $N:ident, $body:block) => {
        match $n {
            1 => {
                const $N: usize = 1;
                $body
            }
            2 => {
                const $N: usize = 2;
                $body
            }
            3 => {
                const $N: usize = 3;
                $body
            }
            16 => {
                const $N: usize = 16;
                $body
            }
            other => panic!("edge capacity {other} is not instantiated"),
        }
    };
}
