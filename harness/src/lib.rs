pub mod c07;
pub mod dirty;
pub mod gen;
pub mod hx;
pub mod inflight;
pub mod menu;
pub mod model;
pub mod parse;
pub mod probes;
pub mod props;
pub mod real;
pub mod replay;
pub mod report;

/// Dispatch on the edge capacity N (a const generic of `Sodg`).
#[macro_export]
macro_rules! with_n {
    ($n:expr, $N:ident, $body:block) => {
        match $n {
            1 => {
                const $N: usize = 1;
                $body
            }
            2 => {
                const $N: usize = 2;
                $body
            }
            3 => {
                const $N: usize = 3;
                $body
            }
            7 => {
                const $N: usize = 7;
                $body
            }
            16 => {
                const $N: usize = 16;
                $body
            }
            other => panic!("edge capacity {other} is not instantiated"),
        }
    };
}

/// Dispatch on any edge capacity 1..=16 (only light-weight code is instantiated 16 times).
#[macro_export]
macro_rules! with_any_n {
    ($n:expr, $N:ident, $body:block) => {
        match $n {
            1 => { const $N: usize = 1; $body }
            2 => { const $N: usize = 2; $body }
            3 => { const $N: usize = 3; $body }
            4 => { const $N: usize = 4; $body }
            5 => { const $N: usize = 5; $body }
            6 => { const $N: usize = 6; $body }
            7 => { const $N: usize = 7; $body }
            8 => { const $N: usize = 8; $body }
            9 => { const $N: usize = 9; $body }
            10 => { const $N: usize = 10; $body }
            11 => { const $N: usize = 11; $body }
            12 => { const $N: usize = 12; $body }
            13 => { const $N: usize = 13; $body }
            14 => { const $N: usize = 14; $body }
            15 => { const $N: usize = 15; $body }
            16 => { const $N: usize = 16; $body }
            other => panic!("edge capacity {other} is outside 1..=16"),
        }
    };
}
