//! The small value alphabets: labels and data, addressed by index so that
//! histories are plain numbers and replay files are stable.

use sodg::{Hex, Label};

pub fn str_label(s: &str) -> Label {
    let mut a = [' '; 8];
    for (i, c) in s.chars().enumerate() {
        a[i] = c;
    }
    Label::Str(a)
}

/// Label menu. Index 0..: all three enum variants, one multi-byte character.
pub fn lab(l: u8) -> Label {
    match l {
        0 => Label::Alpha(0),
        1 => Label::Greek('x'),
        2 => str_label("foo"),
        3 => Label::Greek('ρ'),
        4 => Label::Alpha(1),
        5 => str_label("ba"),
        6 => Label::Greek('π'),
        7 => Label::Alpha(10),
        // two different labels that print alike: a text with a blank inside, and the same text without
        8 => Label::Str(['a', ' ', 'b', ' ', ' ', ' ', ' ', ' ']),
        9 => str_label("ab"),
        // a family of distinct labels for wide vertices
        n => Label::Alpha(100 + n as usize),
    }
}

/// The text each menu label prints as (what the exports must show).
pub fn lab_text(l: u8) -> String {
    match l {
        0 => "α0".into(),
        1 => "x".into(),
        2 => "foo".into(),
        3 => "ρ".into(),
        4 => "α1".into(),
        5 => "ba".into(),
        6 => "π".into(),
        7 => "α10".into(),
        8 | 9 => "ab".into(),
        n => format!("α{}", 100 + n as usize),
    }
}

/// Data menu: the byte strings.
pub fn dat_bytes(d: u8) -> Vec<u8> {
    match d {
        0 => vec![1, 2, 3, 4, 5, 6, 7, 8],
        1 => vec![9, 8, 7, 6, 5, 4, 3, 2, 1],
        2 => vec![],
        3 => vec![0xAB],
        4 => vec![7, 7],
        5 => vec![0x11, 0x22, 0x33],
        6 => vec![0xC0, 0xC1, 0xC2, 0xC3, 0xC4, 0xC5, 0xC6, 0xC7, 0xC8, 0xC9, 0xCA, 0xCB, 0xCC, 0xCD, 0xCE, 0xCF, 0xD0],
        // pairs that differ only by a trailing 00 byte: 200+k = [k+1], 220+k = [k+1, 00]
        n @ 200..=219 => vec![n - 199],
        n @ 220..=239 => vec![n - 219, 0],
        // big data (lengths around the one- and two-byte length boundaries): 250 = 255 bytes, 251 = 256,
        // 252 = 4097, 253 = 65 537; contents vary with the position and differ between the four
        n @ 250..=253 => big_bytes(n),
        // per-vertex distinct data for the tree enumerators: inline and heap
        n @ 100..=149 => vec![n; 3],
        n @ 150..=199 => vec![n; 9],
        n => vec![n, n.wrapping_add(1)],
    }
}

pub const BIG_FIRST: u8 = 250;
pub const BIG_LAST: u8 = 253;

pub fn big_len(d: u8) -> usize {
    match d {
        250 => 255,
        251 => 256,
        252 => 4097,
        _ => 65_537,
    }
}

pub fn big_bytes(d: u8) -> Vec<u8> {
    (0..big_len(d)).map(|i| ((i * 31 + i / 256) as u8).wrapping_add(d)).collect()
}

/// The menu index of a big datum, if these bytes are one (used to keep state keys short without
/// losing information: the four big values are pairwise different).
pub fn big_index(b: &[u8]) -> Option<u8> {
    (BIG_FIRST..=BIG_LAST).find(|d| big_len(*d) == b.len() && big_bytes(*d) == b)
}

/// Data menu: the `Hex` values, in the representation the menu prescribes.
pub fn dat(d: u8) -> Hex {
    match d {
        // heap encoding of a short string
        4 => Hex::Vector(dat_bytes(4)),
        // inline array with non-zero padding
        5 => Hex::Bytes([0x11, 0x22, 0x33, 0xEE, 0xEE, 0xEE, 0xEE, 0xEE], 3),
        _ => Hex::from_slice(&dat_bytes(d)),
    }
}

pub fn hex_text(b: &[u8]) -> String {
    if b.is_empty() {
        "--".to_string()
    } else {
        b.iter().map(|x| format!("{x:02X}")).collect::<Vec<_>>().join("-")
    }
}
