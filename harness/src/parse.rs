//! Small, deliberately tolerant parsers for the text formats the properties
//! talk about. They look for the things the statements name (a vertex token,
//! label texts, target ids, hex bytes, nesting) and not for exact punctuation.

use regex::Regex;
use std::collections::BTreeMap;
use std::sync::LazyLock as Lazy;

#[derive(Clone, Debug, PartialEq, Eq, Default)]
pub struct PVertex {
    pub id: usize,
    /// (label text, target) in document order
    pub edges: Vec<(String, usize)>,
    /// Some(bytes) if the document shows data for the vertex
    pub data: Option<Vec<u8>>,
}

pub fn parse_hex(text: &str) -> Option<Vec<u8>> {
    // any separators (blanks, line breaks, dashes) or none, but the two digits of a byte stand
    // together: a token of odd length is a byte torn apart, not a rendering of the bytes
    if text.split(|c: char| c.is_whitespace() || c == '-').any(|tok| tok.len() % 2 != 0) {
        return None;
    }
    let t: String = text.chars().filter(|c| !c.is_whitespace() && *c != '-').collect();
    if t.len() % 2 != 0 || !t.chars().all(|c| c.is_ascii_hexdigit()) {
        return None;
    }
    Some((0..t.len()).step_by(2).map(|i| u8::from_str_radix(&t[i..i + 2], 16).unwrap()).collect())
}

/// Vertices of a to_xml() document, in document order.
pub fn parse_xml(xml: &str) -> Result<Vec<PVertex>, String> {
    static V: Lazy<Regex> = Lazy::new(|| Regex::new(r#"(?s)<v\s+([^>]*?)(/>|>(.*?)</v>)"#).unwrap());
    static ID: Lazy<Regex> = Lazy::new(|| Regex::new(r#"\bid\s*=\s*"(\d+)""#).unwrap());
    static E: Lazy<Regex> = Lazy::new(|| Regex::new(r#"(?s)<e\s+([^>]*?)/?>"#).unwrap());
    static A: Lazy<Regex> = Lazy::new(|| Regex::new(r#"\ba\s*=\s*"([^"]*)""#).unwrap());
    static TO: Lazy<Regex> = Lazy::new(|| Regex::new(r#"\bto\s*=\s*"(\d+)""#).unwrap());
    static D: Lazy<Regex> = Lazy::new(|| Regex::new(r#"(?s)<data\s*(/>|>(.*?)</data>)"#).unwrap());
    let mut out = vec![];
    for c in V.captures_iter(xml) {
        let attrs = c.get(1).map_or("", |m| m.as_str());
        let id = ID.captures(attrs).ok_or_else(|| format!("<v> without id: {attrs}"))?[1].parse::<usize>().map_err(|e| e.to_string())?;
        let mut v = PVertex { id, ..Default::default() };
        if let Some(body) = c.get(3) {
            for e in E.captures_iter(body.as_str()) {
                let at = e.get(1).map_or("", |m| m.as_str());
                let a = A.captures(at).ok_or_else(|| format!("<e> without a: {at}"))?[1].to_string();
                let to = TO.captures(at).ok_or_else(|| format!("<e> without to: {at}"))?[1].parse::<usize>().map_err(|e| e.to_string())?;
                v.edges.push((a, to));
            }
            if let Some(d) = D.captures(body.as_str()) {
                let text = d.get(2).map_or("", |m| m.as_str());
                v.data = Some(parse_hex(text).ok_or_else(|| format!("<data> of v{id} is not hex: {text:?}"))?);
            }
        }
        out.push(v);
    }
    Ok(out)
}

/// Vertices of a to_dot() document, in document order (edges attached to their source).
pub fn parse_dot(dot: &str) -> Result<Vec<PVertex>, String> {
    static EDGE: Lazy<Regex> = Lazy::new(|| Regex::new(r#"^\s*v(\d+)\s*->\s*v(\d+)\s*\[(.*)\]"#).unwrap());
    static NODE: Lazy<Regex> = Lazy::new(|| Regex::new(r#"^\s*v(\d+)\s*\["#).unwrap());
    static LABEL: Lazy<Regex> = Lazy::new(|| Regex::new(r#"label\s*=\s*"([^"]*)""#).unwrap());
    static CMT: Lazy<Regex> = Lazy::new(|| Regex::new(r#"/\*(.*?)\*/"#).unwrap());
    let mut out: Vec<PVertex> = vec![];
    let mut pending: Vec<(usize, String, usize)> = vec![];
    for line in dot.lines() {
        if let Some(c) = EDGE.captures(line) {
            let from: usize = c[1].parse().map_err(|_| "bad id")?;
            let to: usize = c[2].parse().map_err(|_| "bad id")?;
            let l = LABEL.captures(&c[3]).ok_or_else(|| format!("edge without label: {line}"))?[1].to_string();
            pending.push((from, l, to));
        } else if let Some(c) = NODE.captures(line) {
            let id: usize = c[1].parse().map_err(|_| "bad id")?;
            let mut v = PVertex { id, ..Default::default() };
            // the datum is the hex token after the node statement, in whatever comment style
            static HEX: Lazy<Regex> = Lazy::new(|| Regex::new(r#"(?:^|[^0-9A-Za-z-])((?:[0-9A-F]{2}(?:-[0-9A-F]{2})*)|--)\s*(?:\*/)?\s*$"#).unwrap());
            let _ = &CMT;
            if let Some(end) = line.rfind(']') {
                if let Some(h) = HEX.captures(&line[end + 1..]) {
                    let t = &h[1];
                    v.data = Some(if t == "--" { vec![] } else { parse_hex(t).ok_or_else(|| format!("data comment of v{id} is not hex: {t:?}"))? });
                }
            }
            out.push(v);
        }
    }
    for (from, l, to) in pending {
        match out.iter_mut().find(|v| v.id == from) {
            Some(v) => v.edges.push((l, to)),
            None => return Err(format!("edge from v{from}, which has no node line")),
        }
    }
    Ok(out)
}

/// (source, label, target, elided?) triples of an inspect() text + the root id.
pub fn parse_inspect(txt: &str) -> Result<(usize, Vec<(usize, String, usize, bool)>), String> {
    static LINE: Lazy<Regex> = Lazy::new(|| Regex::new(r#"^(\s*)\.(\S+)\s+\S+\s+ν(\d+)(.*)$"#).unwrap());
    let mut lines = txt.lines();
    let first = lines.next().ok_or("empty inspect text")?;
    let root: usize = first.trim().trim_start_matches('ν').parse().map_err(|_| format!("first line is not a vertex: {first:?}"))?;
    let mut out = vec![];
    // stack of (indent, vertex that edges at this indent start from)
    let mut stack: Vec<(usize, usize)> = vec![];
    let mut last: Option<(usize, usize)> = None; // (indent, target) of the previous line
    for line in lines {
        if line.trim().is_empty() {
            continue;
        }
        let c = LINE.captures(line).ok_or_else(|| format!("unparsable inspect line {line:?}"))?;
        let indent = c[1].chars().count();
        let target: usize = c[3].parse().map_err(|_| "bad id")?;
        let elided = c[4].contains('…');
        let source = match last {
            None => {
                stack.push((indent, root));
                root
            }
            Some((pi, pt)) => {
                if indent > pi {
                    stack.push((indent, pt));
                    pt
                } else {
                    while stack.last().is_some_and(|(i, _)| *i > indent) {
                        stack.pop();
                    }
                    match stack.last() {
                        Some((i, s)) if *i == indent => *s,
                        _ => return Err(format!("inconsistent indentation at {line:?}")),
                    }
                }
            }
        };
        out.push((source, c[2].to_string(), target, elided));
        last = Some((indent, target));
    }
    Ok((root, out))
}

/// Vertex blocks of the Debug/Display text: id -> (edges, data).
pub fn parse_debug(txt: &str) -> Result<Vec<PVertex>, String> {
    static BLOCK: Lazy<Regex> = Lazy::new(|| Regex::new(r#"(?s)ν(\d+)\s*->\s*⟦(.*?)⟧"#).unwrap());
    static EDGE: Lazy<Regex> = Lazy::new(|| Regex::new(r#"(\S+)\s+➞\s+ν(\d+)"#).unwrap());
    let mut out = vec![];
    for c in BLOCK.captures_iter(txt) {
        let id: usize = c[1].parse().map_err(|_| "bad id")?;
        let body = &c[2];
        let mut v = PVertex { id, ..Default::default() };
        let mut last_end = 0;
        for e in EDGE.captures_iter(body) {
            v.edges.push((e[1].to_string(), e[2].parse().map_err(|_| "bad id")?));
            last_end = e.get(0).unwrap().end();
        }
        // whatever is left once the edges are taken out: the datum is the hex token in it
        // (`--` for the empty datum), wherever it stands and whatever marks it
        static HEX: Lazy<Regex> = Lazy::new(|| Regex::new(r#"(?:^|[^0-9A-Za-z-])((?:[0-9A-F]{2}(?:-[0-9A-F]{2})*)|--)(?:$|[^0-9A-Za-z-])"#).unwrap());
        let rest = EDGE.replace_all(body, " ");
        let _ = last_end;
        if let Some(h) = HEX.captures(&rest) {
            let t = &h[1];
            v.data = Some(if t == "--" { vec![] } else { parse_hex(t).ok_or_else(|| format!("data of ν{id} is not hex: {t:?}"))? });
        }
        out.push(v);
    }
    Ok(out)
}

/// v_print(): (has data marker, label texts)
pub fn parse_vprint(txt: &str) -> Result<(usize, bool, Vec<String>), String> {
    static P: Lazy<Regex> = Lazy::new(|| Regex::new(r#"(?s)ν(\d+)\s*⟦(.*)⟧"#).unwrap());
    let c = P.captures(txt).ok_or_else(|| format!("unparsable v_print text {txt:?}"))?;
    let id: usize = c[1].parse().map_err(|_| "bad id")?;
    let mut items: Vec<String> = c[2].split(',').map(|s| s.trim().to_string()).filter(|s| !s.is_empty()).collect();
    // the marker is the item that starts with Δ (it may carry the data, e.g. `Δ ➞ 68-65`)
    let marker = items.first().is_some_and(|s| s.starts_with('Δ'));
    if marker {
        items.remove(0);
    }
    Ok((id, marker, items))
}

/// ids after the word "missed" in the error text of merge()
pub fn parse_missed(msg: &str) -> Option<Vec<usize>> {
    static NU: Lazy<Regex> = Lazy::new(|| Regex::new(r#"ν(\d+)"#).unwrap());
    let i = msg.rfind("missed")?;
    let v: Vec<usize> = NU.captures_iter(&msg[i..]).filter_map(|c| c[1].parse().ok()).collect();
    if v.is_empty() {
        None
    } else {
        Some(v)
    }
}

pub fn numbers_in(msg: &str) -> Vec<usize> {
    static NUM: Lazy<Regex> = Lazy::new(|| Regex::new(r#"\d+"#).unwrap());
    NUM.find_iter(msg).filter_map(|m| m.as_str().parse().ok()).collect()
}

pub fn edges_as_map(v: &[(String, usize)]) -> BTreeMap<String, Vec<usize>> {
    let mut m: BTreeMap<String, Vec<usize>> = BTreeMap::new();
    for (l, t) in v {
        m.entry(l.clone()).or_default().push(*t);
    }
    m
}
