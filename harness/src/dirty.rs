//! Failing calls on unrelated objects. None of the properties lets an answer depend on what
//! happened to ANOTHER graph or value before (C19 says so outright); a scratch buffer, a cache or a
//! memo kept in the thread or the process and cleaned up only on the success path breaks that, and
//! shows only in the first correct call after a call that failed half-way. Every engine therefore
//! runs part of its cases right after `failing_calls()`: each call below ends in an Err or in a
//! panic the caller catches, after having done part of its work.

use crate::menu::{dat, lab};
use crate::real::{guarded, thread_file};
use sodg::{Hex, Label, Sodg};
use std::str::FromStr;

thread_local! {
    static DIRTY: std::cell::Cell<bool> = const { std::cell::Cell::new(false) };
    static COUNT: std::cell::Cell<u64> = const { std::cell::Cell::new(0) };
}

/// Was `failing_calls()` the last thing this thread did through `maybe()`/`failing_calls()`?
pub fn is_dirty() -> bool {
    DIRTY.with(std::cell::Cell::get)
}

pub fn mark_clean() {
    DIRTY.with(|d| d.set(false));
}

/// How many times this thread ran the failing calls.
pub fn count() -> u64 {
    COUNT.with(std::cell::Cell::get)
}

/// Run the failing calls before every `every`-th case (k = case index), and complete, successful
/// life-cycles on foreign objects before another `every`-th.
pub fn maybe(k: usize, every: usize) -> bool {
    if every > 0 && k % every == every / 2 {
        FLAVOUR.with(|f| f.set(1));
        failing_calls();
        true
    } else if every > 0 && k % every == 0 {
        FLAVOUR.with(|f| f.set(2));
        foreign_calls();
        true
    } else {
        FLAVOUR.with(|f| f.set(0));
        mark_clean();
        false
    }
}

/// the flavour `maybe()` chose for the case in hand, once more (0 = none): for engines that make
/// many calls per case, any of which may clean up what the calls on unrelated objects left
pub fn again() {
    match FLAVOUR.with(std::cell::Cell::get) {
        1 => failing_calls(),
        2 => foreign_calls(),
        _ => {}
    }
}

thread_local! {
    static FLAVOUR: std::cell::Cell<u8> = const { std::cell::Cell::new(0) };
}

thread_local! {
    /// replays: which calls on unrelated objects come right before the last step of the history
    /// (0 none, 1 the failing ones, 2 the successful ones)
    static BEFORE_LAST: std::cell::Cell<u8> = const { std::cell::Cell::new(0) };
}

pub fn set_before_last(k: u8) {
    BEFORE_LAST.with(|b| b.set(k));
}

/// called by the replay right before the last step (or the probes) of a history
pub fn before_last_step() {
    match BEFORE_LAST.with(std::cell::Cell::get) {
        1 => failing_calls(),
        2 => foreign_calls(),
        _ => {}
    }
}

/// Complete, successful life-cycles on foreign objects: nothing a graph or value answers may depend
/// on them either (a hint, memo or cache shared between objects through the thread or the process).
pub fn foreign_calls() {
    DIRTY.with(|d| d.set(true));
    COUNT.with(|c| c.set(c.get() + 1));
    let _ = guarded(|| {
        let mut f: Sodg<3> = Sodg::empty(16);
        for v in 0..6 {
            f.add(v);
        }
        // ids handed out, a vertex with heap data read twice, texts of everything
        let a = f.next_id();
        f.add(a);
        f.put(4, &dat(6));
        let _ = (f.data(4), f.data(4), f.kid(4, lab(0)), f.kids(4).count());
        f.bind(4, 5, Label::from_str("quantity").unwrap());
        f.bind(5, 4, lab(8));
        let _ = (f.to_xml().map(|t| t.len()), f.to_dot().len(), f.inspect(4).map(|t| t.len()), f.v_print(4).map(|t| t.len()), format!("{f:?}").len());
        let s = f.slice(4).map(|s| s.len());
        let _ = s;
        let file = thread_file("foreign");
        if f.save(&file).is_ok() {
            let _ = Sodg::<3>::load(&file).map(|g| g.len());
        }
        let mut t: Sodg<3> = Sodg::empty(8);
        t.add(0);
        let _ = t.merge(&f.slice(4).unwrap(), 0, 4);
        let _ = sodg::Script::from_str("ADD(1); ADD($ν1); BIND(1, $ν1, quantity); PUT($ν1, 00-01-02-03-04-05-06-07-08-09);").deploy_to(&mut t);
        let c = t.clone();
        let _ = c.len();
    });
    let _ = guarded(|| {
        // values: texts of 8 characters and of heap data, printed, parsed, edited, dropped
        let _ = (Label::from_str("quantity"), Label::from_str("α1234567"), Label::from_str("x"), Label::from_str("ρ"));
        let mut h = Hex::from_slice(&[0x31; 12]);
        let _ = h.print();
        h[0] = 0x32;
        let _ = h.print();
        let r = h.concat(&Hex::from_slice(&[0x41; 3]));
        let _ = (r.print(), r.len(), r.tail(2).len());
        drop(r);
        let _ = Hex::from_str("31-32-33-34-35-36-37-38-39-3A-3B-3C");
        drop(h);
    });
    let _ = guarded(|| {
        // LAST (no bind, no collection comes after it): two groups formed and collected on a foreign
        // graph, the one in the first slot last
        let mut f: Sodg<3> = Sodg::empty(16);
        for v in 0..6 {
            f.add(v);
        }
        f.bind(0, 1, lab(0));
        f.bind(2, 3, lab(0));
        f.put(1, &dat(0));
        f.put(3, &dat(1));
        let _ = f.data(3);
        let _ = f.data(1);
        let _ = f.next_id();
    });
}

pub fn failing_calls() {
    DIRTY.with(|d| d.set(true));
    COUNT.with(|c| c.set(c.get() + 1));
    failing_calls_n::<3>();
}

#[allow(clippy::too_many_lines)]
fn failing_calls_n<const N: usize>() {
    // a graph with two groups, heap and inline data, a cycle, ids 10..=15 and 0
    let build = || {
        let mut a: Sodg<N> = Sodg::empty(24);
        for v in [0usize, 10, 11, 12, 13, 14, 15] {
            a.add(v);
        }
        a.bind(10, 11, lab(0));
        a.bind(10, 12, lab(1));
        a.bind(11, 12, lab(0));
        a.bind(12, 10, lab(2));
        a.bind(13, 14, lab(0));
        a.put(11, &dat(6));
        a.put(12, &dat(0));
        a.put(14, &dat(1));
        a.put(15, &dat(3));
        a
    };
    let _ = guarded(|| {
        let a = build();
        // merge: refused (the right graph is a forest), twice, into a graph that has vertices
        let mut b: Sodg<N> = Sodg::empty(24);
        b.add(0);
        b.add(7);
        b.bind(0, 7, lab(0));
        let _ = b.merge(&a, 0, 10);
        let _ = b.merge(&a, 7, 13);
    });
    // merge: stopped half-way by a limit panic (the left vertex is full); right ids 10,11,12, left ids 200+
    let _ = guarded(|| {
        let mut l: Sodg<N> = Sodg::empty(210);
        for v in 200..204 {
            l.add(v);
        }
        for i in 0..N {
            l.bind(200, 201 + i % 3, Label::Alpha(50 + i));
        }
        // (right ids 10, 11, 12: whatever this leaves must not make the next merge return at once)
        let mut r: Sodg<N> = Sodg::empty(14);
        for v in 10..13 {
            r.add(v);
        }
        r.bind(10, 11, lab(0));
        r.bind(11, 12, lab(1));
        r.put(12, &dat(1));
        let _ = l.merge(&r, 200, 10);
    });
    // merge: stopped late, by the lack of a free id, after the right vertices 1, 2, 3 (ids that small
    // right graphs use below their root) were given left vertices with high ids
    let _ = guarded(|| {
        let mut l: Sodg<N> = Sodg::empty(206);
        for v in 0..=202 {
            l.add(v);
        }
        // the chain 0 -> 2 -> 3 -> 4 -> 5 (id 1, the root of other right graphs, is not in it)
        let mut r: Sodg<N> = Sodg::empty(7);
        for v in [0usize, 2, 3, 4, 5] {
            r.add(v);
        }
        r.bind(0, 2, lab(0));
        for v in 2..5 {
            r.bind(v, v + 1, lab(0));
        }
        let _ = l.merge(&r, 202, 0);
    });
    // slice / inspect / v_print / kids / data on an id beyond the capacity or absent
    let small = || {
        let mut s: Sodg<N> = Sodg::empty(4);
        s.add(0);
        s.add(1);
        s.bind(0, 1, lab(0));
        s
    };
    // a walk that fails half-way: an edge into a collected vertex below the start
    let dangling = || {
        let mut s: Sodg<N> = Sodg::empty(6);
        for v in 0..4 {
            s.add(v);
        }
        s.bind(0, 1, lab(0));
        s.bind(2, 3, lab(0));
        s.bind(1, 2, lab(0));
        s.put(3, &dat(0));
        s.put(0, &dat(0));
        let _ = s.data(3);
        s
    };
    let _ = guarded(|| dangling().inspect(0).map(|t| t.len()));
    let _ = guarded(|| dangling().slice(0).map(|t| t.len()));
    let _ = guarded(|| small().inspect(2).map(|t| t.len()));
    let _ = guarded(|| small().slice(300).map(|t| t.len()));
    let _ = guarded(|| small().slice(2).map(|t| t.len()));
    // ids that small graphs use, asked of a graph with a single slot: each of these calls fails
    // at its start vertex (the last inspect/v_print/slice calls of this function that can fail early)
    let tiny = || {
        let mut s: Sodg<N> = Sodg::empty(1);
        s.add(0);
        s
    };
    for v in [300usize, 5, 3, 2, 1] {
        let _ = guarded(|| tiny().inspect(v).map(|t| t.len()));
        let _ = guarded(|| tiny().v_print(v).map(|t| t.len()));
        let _ = guarded(|| tiny().slice(v).map(|t| t.len()));
    }
    let _ = guarded(|| small().v_print(300).map(|t| t.len()));
    let _ = guarded(|| small().v_print(3).map(|t| t.len()));
    let _ = guarded(|| small().kid(300, lab(0)));
    let _ = guarded(|| small().kids(300).count());
    let _ = guarded(|| small().data(300).map(|h| h.len()));
    let _ = guarded(|| small().data(3).map(|h| h.len()));
    let _ = guarded(|| small().put(300, &dat(1)));
    let _ = guarded(|| small().add(300));
    let _ = guarded(|| small().bind(0, 300, lab(1)));
    let _ = guarded(|| small().bind(0, 0, lab(1)));
    // slice_some: the predicate gives up after two edges (the last slice of this function: nothing after it cleans up)
    let _ = guarded(|| {
        let a = build();
        let seen = std::cell::Cell::new(0);
        let _ = a.slice_some(10, |_, _, _| {
            seen.set(seen.get() + 1);
            assert!(seen.get() < 2, "predicate gives up at the second edge");
            true
        });
    });
    // the (N+1)-th label, next_id() on a full graph
    let _ = guarded(|| {
        let mut s: Sodg<N> = Sodg::empty(N + 3);
        for v in 0..N + 3 {
            s.add(v);
        }
        let _ = guarded(|| s.next_id());
        for i in 0..=N {
            s.bind(0, i + 1, Label::Alpha(i));
        }
    });
    // Hex: a malformed operand (inline length 9), conversions of the wrong length, bad texts
    let bad = Hex::Bytes([0xAA; 8], 9);
    let _ = guarded(|| bad.concat(&Hex::from_slice(&[0x22; 8])).len());
    let _ = guarded(|| Hex::from_slice(&[0x11; 12]).concat(&bad).len());
    let _ = guarded(|| Hex::from_slice(&[0x11; 3]).concat(&bad).len());
    let _ = guarded(|| Hex::from_slice(&[0x11; 8]).concat(&bad).len());
    let _ = guarded(|| Hex::from_slice(&[1, 2, 3]).to_i64().is_ok());
    let _ = guarded(|| Hex::from_slice(&[1, 2, 3, 4, 5, 6, 7, 8, 9]).to_f64().is_ok());
    let _ = guarded(|| Hex::from_slice(&[0xFF, 0xFE]).to_utf8().is_ok());
    let _ = guarded(|| Hex::from_str("01-0G-03").is_ok());
    let _ = guarded(|| Hex::from_slice(&[1, 2, 3]).tail(7).len());
    let _ = guarded(|| Hex::from_slice(&[1, 2, 3]).byte_at(5));
    let _ = guarded(|| Hex::from_slice(&[9; 12])[20]);
    // labels that do not parse
    let _ = guarded(|| Label::from_str("α").is_ok());
    let _ = guarded(|| Label::from_str("αx1").is_ok());
    let _ = guarded(|| Label::from_str("much-too-long").is_ok());
    let _ = guarded(|| Label::from_str("").is_ok());
    // scripts that fail half-way (after commands with variables were applied)
    let _ = guarded(|| {
        let mut c: Sodg<N> = Sodg::empty(12);
        c.add(0);
        let _ = sodg::Script::from_str("ADD($x); ADD($y); BIND($x, $y, foo); PUT($y, CA-FE-BA-BE-00-11-22-33-44-55); BIND($y, 0x, bar);").deploy_to(&mut c);
        let _ = sodg::Script::from_str("ADD($x); BIND(0, $x, foo); FOO($x);").deploy_to(&mut c);
        let _ = sodg::Script::from_str("ADD(5); PUT(5, zz);").deploy_to(&mut c);
    });
    // load of garbage, of an empty file, of a cut image and of a missing file; then, last, a save into
    // a directory that does not exist (no successful save or load comes after the failing ones)
    let _ = guarded(|| {
        let a = build();
        let f = thread_file("garbage");
        if let Ok(n) = a.save(&f) {
            if let Ok(file) = std::fs::OpenOptions::new().write(true).open(&f) {
                let _ = file.set_len(n as u64 / 2);
            }
            let _ = Sodg::<N>::load(&f).map(|g| g.len());
        }
        let _ = std::fs::write(&f, [0x10u8, 0, 0, 0, 0, 0, 0, 0, 0x07, 0x07, 0x07]);
        let _ = Sodg::<N>::load(&f).map(|g| g.len());
        let _ = std::fs::write(&f, []);
        let _ = Sodg::<N>::load(&f).map(|g| g.len());
        let _ = std::fs::remove_file(&f);
        let _ = Sodg::<N>::load(&thread_file("no-such-file")).map(|g| g.len());
        let _ = a.save(&thread_file("no-such-dir").join("x").join("image"));
    });
}
