//! The reference model: a direct, deliberately boring transcription of the
//! property statements C01-C05 (+ the graft of C11). No sodg types inside.

use serde::{Deserialize, Serialize};
use std::collections::{BTreeMap, BTreeSet};

pub const MAX_GROUP: usize = 16;
pub const MAX_GROUPS_ALIVE: usize = 14;

#[derive(Clone, Copy, Debug, PartialEq, Eq, Hash, PartialOrd, Ord, Serialize, Deserialize)]
pub enum Op {
    Add(usize),
    Bind(usize, usize, u8),
    Put(usize, u8),
    Data(usize),
    /// call next_id(), record the result, do not add it
    NextId,
    /// add(next_id())
    AddNext,
    /// continue on g.clone()
    CloneSwap,
    /// continue on a graph that has lived before (own group, unread counter, allocator position) and
    /// then took everything over by `clone_from(&g)`
    CloneFromSwap,
    /// continue on load(save(g))
    ReloadSwap,
    /// merge the fixed right tree no. k at `left`
    Merge(u8, usize),
    /// merge a right graph that is the fixed tree no. k plus a stray present vertex nothing leads
    /// to: the call has to return Err (C12). No property pins down what the left graph holds after
    /// the refusal (the graft, nothing, or part of it), so the model takes the left graph as it is
    /// found afterwards and the history goes on from there: whatever it is, it has to keep obeying C01-C05.
    MergeFail(u8, usize),
    /// deploy the script `ADD(a); ADD(b); BIND(a, b, α0); PUT(b, 01-..-08);` onto the graph; with
    /// k = 1 a malformed fifth command follows: the call has to return Err *after the commands before
    /// it have been applied* (C14), and the history goes on from there
    Script(u8, usize, usize),
}

/// the add/bind/put calls the commands of the script stand for (all of them are applied for k = 0 and k = 1)
pub fn script_ops(a: usize, b: usize) -> [Op; 4] {
    [Op::Add(a), Op::Add(b), Op::Bind(a, b, 0), Op::Put(b, 0)]
}

/// scripts 2 and 3: a vertex named by a variable (its id comes from next_id()), bound under `a`
pub fn var_script_text(k: u8, a: usize) -> String {
    let mut t = format!("ADD($ν1); BIND(ν{a}, $ν1, α0);\n# the datum\nPUT($ν1, 01-02-03-04-05-06-07-08);");
    if k == 3 {
        t.push_str(&format!(" BIND($ν1, {a}x, α0); ADD({a});"));
    }
    t
}

pub fn script_text(k: u8, a: usize, b: usize) -> String {
    if k >= 2 {
        return var_script_text(k, a);
    }
    let mut t = format!("ADD({a}); ADD(ν{b});\nBIND({a}, {b}, α0); # put comes next\n PUT({b}, 01-02-03-04-05-06-07-08);");
    if k == 1 {
        t.push_str(&format!(" BIND({b}, {a}x, α0); ADD({a});"));
    }
    t
}

impl Op {
    pub fn text(&self) -> String {
        match self {
            Op::Add(v) => format!("add({v})"),
            Op::Bind(a, b, l) => format!("bind({a},{b},{})", crate::menu::lab_text(*l)),
            Op::Put(v, d) => {
                let b = crate::menu::dat_bytes(*d);
                if b.len() > 24 {
                    format!("put({v},<{} bytes {}...>)", b.len(), crate::menu::hex_text(&b[..4]))
                } else {
                    format!("put({v},{})", crate::menu::hex_text(&b))
                }
            }
            Op::Data(v) => format!("data({v})"),
            Op::NextId => "next_id()".into(),
            Op::AddNext => "add(next_id())".into(),
            Op::CloneSwap => "g=g.clone()".into(),
            Op::CloneFromSwap => "used.clone_from(&g); g=used".into(),
            Op::ReloadSwap => "g=load(save(g))".into(),
            Op::Merge(k, l) => format!("merge(H{k},left={l})"),
            Op::MergeFail(k, l) => format!("merge(H{k}+stray,left={l})=Err"),
            Op::Script(k, a, b) => format!("deploy_to({:?}){}", script_text(*k, *a, *b), if *k % 2 == 1 { "=Err" } else { "" }),
        }
    }
}

pub fn hist_text(h: &[Op]) -> String {
    h.iter().map(Op::text).collect::<Vec<_>>().join("; ")
}

#[derive(Clone, Debug, PartialEq, Eq, Hash, Default)]
pub struct MV {
    /// label index -> target, in order of first binding
    pub edges: Vec<(u8, usize)>,
    pub data: Option<u8>,
    pub unread: bool,
    pub group: Option<usize>,
}

/// A small labelled tree (the right operand of merge). Node 0 is the root.
#[derive(Clone, Debug, PartialEq, Eq, Hash, Serialize, Deserialize)]
pub struct HTree {
    pub kids: Vec<Vec<(u8, usize)>>,
    pub data: Vec<Option<u8>>,
}

impl HTree {
    pub fn size(&self) -> usize {
        self.kids.len()
    }
}

/// The fixed right trees used by the Merge transition inside HX.
pub fn fixed_tree(k: u8) -> HTree {
    match k {
        0 => HTree { kids: vec![vec![]], data: vec![Some(0)] },
        1 => HTree { kids: vec![vec![(0, 1)], vec![]], data: vec![None, Some(1)] },
        // the empty datum, on a vertex the left graph may have (root) and on one it may lack
        3 => HTree { kids: vec![vec![(0, 1)], vec![]], data: vec![Some(2), Some(2)] },
        _ => HTree { kids: vec![vec![(0, 1), (1, 2)], vec![], vec![]], data: vec![Some(0), None, None] },
    }
}

#[derive(Clone, Debug, PartialEq, Eq, Hash, Default)]
pub struct Model {
    pub cap: usize,
    pub n: usize,
    pub present: BTreeMap<usize, MV>,
    next_group: usize,
    /// lower bound of the allocator position implied by the ids seen returned
    pub pos: usize,
    /// ids returned by next_id() on this graph or its clone ancestors since creation / reload
    pub returned: BTreeSet<usize>,
    pub track_returned: bool,
    /// ids whose vertex was collected and that are absent now: (had edges, had data).
    /// Bookkeeping for the non-vacuity counters only; not part of the state key.
    pub graves: BTreeMap<usize, (bool, bool)>,
}

/// What the model expects a call to return / do.
#[derive(Clone, Debug, PartialEq, Eq, Default)]
pub struct Expect {
    /// for Data: Some(result)
    pub data: Option<Option<u8>>,
    /// vertices the model removes in this call
    pub removed: Vec<usize>,
    /// Data: was this the first read since put?
    pub first_read: bool,
}

impl Model {
    pub fn new(cap: usize, n: usize, track_returned: bool) -> Self {
        Self { cap, n, track_returned, ..Default::default() }
    }

    pub fn keys(&self) -> Vec<usize> {
        self.present.keys().copied().collect()
    }

    pub fn group_members(&self, g: usize) -> Vec<usize> {
        self.present.iter().filter(|(_, m)| m.group == Some(g)).map(|(v, _)| *v).collect()
    }

    pub fn groups(&self) -> BTreeSet<usize> {
        self.present.values().filter_map(|m| m.group).collect()
    }

    pub fn groups_alive(&self) -> usize {
        self.groups().len()
    }

    pub fn has_free_id(&self, impl_pos: usize) -> bool {
        let from = self.pos.max(impl_pos);
        (from..self.cap).any(|v| !self.present.contains_key(&v))
    }

    /// Is the op inside the limits and preconditions the quantifiers name?
    pub fn enabled(&self, op: &Op, impl_pos: usize) -> bool {
        match op {
            Op::Add(v) => *v < self.cap,
            Op::Bind(a, b, l) => self.bind_enabled(*a, *b, *l),
            Op::Put(v, _) | Op::Data(v) => self.present.contains_key(v),
            Op::NextId | Op::AddNext => self.has_free_id(impl_pos),
            Op::CloneSwap | Op::CloneFromSwap | Op::ReloadSwap => true,
            Op::Merge(k, left) | Op::MergeFail(k, left) => self.merge_enabled(&fixed_tree(*k), *left, impl_pos),
            Op::Script(k, a, _) if *k >= 2 => {
                // needs a free id for the variable; the new vertex is bound under `a`
                if !self.present.contains_key(a) || !self.has_free_id(impl_pos) {
                    return false;
                }
                let from = self.pos.max(impl_pos);
                let Some(id) = (from..self.cap).find(|v| !self.present.contains_key(v)) else { return false };
                let mut sim = self.clone();
                sim.apply(&Op::Add(id));
                sim.bind_enabled(*a, id, 0)
            }
            Op::Script(_, a, b) => {
                let mut sim = self.clone();
                for op in script_ops(*a, *b) {
                    if !sim.enabled(&op, impl_pos) {
                        return false;
                    }
                    sim.apply(&op);
                }
                true
            }
        }
    }

    pub fn bind_enabled(&self, a: usize, b: usize, l: u8) -> bool {
        if a == b {
            return false;
        }
        let (Some(va), Some(vb)) = (self.present.get(&a), self.present.get(&b)) else {
            return false;
        };
        if !va.edges.iter().any(|(x, _)| *x == l) && va.edges.len() >= self.n {
            return false;
        }
        match (va.group, vb.group) {
            (None, None) => self.groups_alive() < MAX_GROUPS_ALIVE,
            (Some(g), None) | (None, Some(g)) => self.group_members(g).len() < MAX_GROUP,
            _ => true,
        }
    }

    /// The whole present graph is one tree (single root, every other vertex
    /// has exactly one parent, all edges point to present vertices).
    pub fn is_tree(&self) -> bool {
        if self.present.is_empty() {
            return false;
        }
        let mut indeg: BTreeMap<usize, usize> = self.present.keys().map(|v| (*v, 0)).collect();
        for m in self.present.values() {
            for (_, t) in &m.edges {
                match indeg.get_mut(t) {
                    Some(c) => *c += 1,
                    None => return false,
                }
            }
        }
        let roots: Vec<usize> = indeg.iter().filter(|(_, c)| **c == 0).map(|(v, _)| *v).collect();
        if roots.len() != 1 || indeg.values().any(|c| *c > 1) {
            return false;
        }
        let mut seen = BTreeSet::new();
        let mut todo = vec![roots[0]];
        while let Some(v) = todo.pop() {
            if seen.insert(v) {
                for (_, t) in &self.present[&v].edges {
                    todo.push(*t);
                }
            }
        }
        seen.len() == self.present.len()
    }

    /// Plan of a merge: the number of h-paths g lacks. Returns None if the
    /// merge would leave the limits (labels per vertex, group size, groups
    /// alive, free ids) or would descend into an absent vertex. Decided by
    /// simulating the graft on a copy, step by step.
    pub fn merge_plan(&self, h: &HTree, left: usize, impl_pos: usize) -> Option<usize> {
        if !self.present.contains_key(&left) {
            return None;
        }
        let from = self.pos.max(impl_pos);
        let mut free: std::collections::VecDeque<usize> =
            (from..self.cap).filter(|v| !self.present.contains_key(v)).collect();
        let mut sim = self.clone();
        let mut need = 0usize;
        if sim.merge_sim(h, 0, left, &mut free, &mut need) {
            Some(need)
        } else {
            None
        }
    }

    fn merge_sim(&mut self, h: &HTree, hn: usize, gl: usize, free: &mut std::collections::VecDeque<usize>, need: &mut usize) -> bool {
        if let Some(d) = h.data[hn] {
            self.apply(&Op::Put(gl, d));
        }
        for (a, hc) in &h.kids[hn] {
            let t = self.present[&gl].edges.iter().find(|(x, _)| x == a).map(|(_, t)| *t);
            let t = match t {
                Some(t) => {
                    if !self.present.contains_key(&t) {
                        return false;
                    }
                    t
                }
                None => {
                    let Some(id) = free.pop_front() else { return false };
                    self.apply(&Op::Add(id));
                    if !self.bind_enabled(gl, id, *a) {
                        return false;
                    }
                    self.apply(&Op::Bind(gl, id, *a));
                    *need += 1;
                    id
                }
            };
            if !self.merge_sim(h, *hc, t, free, need) {
                return false;
            }
        }
        true
    }

    pub fn merge_enabled(&self, h: &HTree, left: usize, impl_pos: usize) -> bool {
        self.is_tree() && self.merge_plan(h, left, impl_pos).is_some()
    }

    /// Walk h from node hn mapped onto g vertex gl (None = a vertex that does
    /// not exist yet); callback(gl, label, exists).
    pub fn merge_walk(&self, h: &HTree, hn: usize, gl: Option<usize>, cb: &mut dyn FnMut(Option<usize>, u8, bool)) {
        for (a, hc) in &h.kids[hn] {
            let t = gl.and_then(|g| self.present[&g].edges.iter().find(|(x, _)| x == a).map(|(_, t)| *t));
            cb(gl, *a, t.is_some());
            self.merge_walk(h, *hc, t, cb);
        }
    }

    /// Apply the graft as the add/bind/put it stands for. New ids are read
    /// back from the implementation through `resolve(g_vertex, label)`.
    /// Returns (map h-node -> g-vertex, new ids); problems go to `errs`.
    pub fn apply_merge(
        &mut self,
        h: &HTree,
        left: usize,
        resolve: &dyn Fn(usize, u8) -> Option<usize>,
        errs: &mut Vec<String>,
    ) -> (BTreeMap<usize, usize>, Vec<usize>) {
        let mut map = BTreeMap::new();
        let mut fresh = vec![];
        self.apply_merge_rec(h, 0, left, resolve, errs, &mut map, &mut fresh);
        let mut sorted = fresh.clone();
        sorted.sort_unstable();
        sorted.dedup();
        if sorted.len() != fresh.len() {
            errs.push(format!("merge created the same id twice: {fresh:?}"));
        }
        for id in &fresh {
            if *id >= self.cap {
                errs.push(format!("merge created id {id} >= capacity {}", self.cap));
            }
            if self.track_returned && self.returned.contains(id) {
                errs.push(format!("merge created id {id} that next_id() had returned before (returned={:?})", self.returned));
            }
        }
        for id in &fresh {
            self.note_returned(*id);
        }
        (map, fresh)
    }

    #[allow(clippy::too_many_arguments)]
    fn apply_merge_rec(
        &mut self,
        h: &HTree,
        hn: usize,
        gl: usize,
        resolve: &dyn Fn(usize, u8) -> Option<usize>,
        errs: &mut Vec<String>,
        map: &mut BTreeMap<usize, usize>,
        fresh: &mut Vec<usize>,
    ) {
        map.insert(hn, gl);
        if let Some(d) = h.data[hn] {
            self.apply(&Op::Put(gl, d));
        }
        for (a, hc) in &h.kids[hn] {
            let t = self.present[&gl].edges.iter().find(|(x, _)| x == a).map(|(_, t)| *t);
            let t = match t {
                Some(t) => t,
                None => match resolve(gl, *a) {
                    None => {
                        errs.push(format!("after merge, ν{gl} has no edge '{}' that the right tree demands", crate::menu::lab_text(*a)));
                        return;
                    }
                    Some(id) => {
                        if self.present.contains_key(&id) {
                            errs.push(format!("merge bound ν{gl}.{} to ν{id}, which was already present, instead of creating a new vertex", crate::menu::lab_text(*a)));
                            return;
                        }
                        fresh.push(id);
                        self.apply(&Op::Add(id));
                        self.apply(&Op::Bind(gl, id, *a));
                        id
                    }
                },
            };
            if !self.present.contains_key(&t) {
                errs.push(format!("merge descends into absent vertex ν{t}"));
                return;
            }
            self.apply_merge_rec(h, *hc, t, resolve, errs, map, fresh);
        }
    }

    /// Take the present vertices as they were observed (after a call whose effect on the graph no
    /// property pins down). `observed`: id -> (edges, datum, unread, group tag of the
    /// implementation or None). Groups are renumbered; ids that appeared count as handed out.
    pub fn adopt_observed(&mut self, observed: BTreeMap<usize, (Vec<(u8, usize)>, Option<u8>, bool, Option<usize>)>) {
        let mut ren: BTreeMap<usize, usize> = BTreeMap::new();
        let mut present = BTreeMap::new();
        let appeared: Vec<usize> = observed.keys().filter(|v| !self.present.contains_key(v)).copied().collect();
        for (v, (edges, data, unread, tag)) in observed {
            let group = tag.map(|t| {
                *ren.entry(t).or_insert_with(|| {
                    let g = self.next_group;
                    self.next_group += 1;
                    g
                })
            });
            present.insert(v, MV { edges, data, unread, group });
        }
        self.present = present;
        for v in appeared {
            self.graves.remove(&v);
            self.note_returned(v);
        }
    }

    /// scripts 2 and 3: the variable got `id` from next_id(); the vertex is added, bound under `a`, given a datum
    pub fn apply_var_script(&mut self, a: usize, id: Option<usize>, errs: &mut Vec<String>) {
        let Some(id) = id else {
            errs.push(format!("after the script, ν{a} has no edge α0 to the vertex the script created"));
            return;
        };
        let n0 = errs.len();
        self.adopt_next(id, true, errs);
        if errs.len() > n0 {
            return;
        }
        self.apply(&Op::Bind(a, id, 0));
        self.apply(&Op::Put(id, 0));
    }

    pub fn note_returned(&mut self, id: usize) {
        if self.track_returned {
            self.returned.insert(id);
        }
        self.pos = self.pos.max(id + 1);
    }

    /// Apply an op (not Merge, not NextId/AddNext: those need the id chosen
    /// by the implementation, see `adopt_next`).
    pub fn apply(&mut self, op: &Op) -> Expect {
        let mut ex = Expect::default();
        match op {
            Op::Add(v) => {
                self.present.entry(*v).or_default();
                self.graves.remove(v);
            }
            Op::Bind(a, b, l) => {
                let ga = self.present[a].group;
                let gb = self.present[b].group;
                let va = self.present.get_mut(a).unwrap();
                if let Some(e) = va.edges.iter_mut().find(|(x, _)| x == l) {
                    e.1 = *b;
                } else {
                    va.edges.push((*l, *b));
                }
                match (ga, gb) {
                    (None, None) => {
                        let g = self.next_group;
                        self.next_group += 1;
                        self.present.get_mut(a).unwrap().group = Some(g);
                        self.present.get_mut(b).unwrap().group = Some(g);
                    }
                    (Some(g), None) => self.present.get_mut(b).unwrap().group = Some(g),
                    (None, Some(g)) => self.present.get_mut(a).unwrap().group = Some(g),
                    _ => {}
                }
            }
            Op::Put(v, d) => {
                let m = self.present.get_mut(v).unwrap();
                m.data = Some(*d);
                m.unread = true;
            }
            Op::Data(v) => {
                let m = self.present.get_mut(v).unwrap();
                ex.data = Some(m.data);
                if m.unread {
                    ex.first_read = true;
                    m.unread = false;
                    if let Some(g) = m.group {
                        let mem = self.group_members(g);
                        if !mem.iter().any(|x| self.present[x].unread) {
                            for x in &mem {
                                if let Some(mx) = self.present.remove(x) {
                                    self.graves.insert(*x, (!mx.edges.is_empty(), mx.data.is_some()));
                                }
                            }
                            ex.removed = mem;
                        }
                    }
                }
            }
            Op::CloneSwap | Op::CloneFromSwap => {}
            Op::Script(k, ..) if *k >= 2 => unreachable!("handled by the caller (the id comes from the implementation)"),
            Op::Script(_, a, b) => {
                for op in script_ops(*a, *b) {
                    self.apply(&op);
                }
            }
            Op::ReloadSwap => {
                self.pos = 0;
                self.returned.clear();
            }
            Op::NextId | Op::AddNext | Op::Merge(..) | Op::MergeFail(..) => unreachable!("handled by the caller"),
        }
        ex
    }

    /// The implementation returned `id` from next_id(): check it against C05
    /// and adopt it. `add` = the AddNext transition.
    pub fn adopt_next(&mut self, id: usize, add: bool, errs: &mut Vec<String>) {
        if id >= self.cap {
            errs.push(format!("next_id() returned {id}, not below the capacity {}", self.cap));
            return;
        }
        if self.present.contains_key(&id) {
            errs.push(format!("next_id() returned {id}, which is present"));
            return;
        }
        if self.track_returned && self.returned.contains(&id) {
            errs.push(format!("next_id() returned {id} again (returned so far: {:?})", self.returned));
        }
        self.note_returned(id);
        if add {
            self.present.entry(id).or_default();
            self.graves.remove(&id);
        }
    }

    /// Canonical bytes of the model state (groups renamed by smallest member).
    pub fn encode(&self, out: &mut Vec<u8>) {
        let mut ren: BTreeMap<usize, usize> = BTreeMap::new();
        put_var(out, self.present.len());
        for (v, mv) in &self.present {
            put_var(out, *v);
            put_var(out, mv.edges.len());
            let mut e = mv.edges.clone();
            e.sort_unstable();
            for (l, t) in e {
                out.push(l);
                put_var(out, t);
            }
            match mv.data {
                None => out.push(0xFF),
                Some(d) => out.push(d),
            }
            out.push(u8::from(mv.unread));
            match mv.group {
                None => put_var(out, 0),
                Some(g) => {
                    let n = *ren.entry(g).or_insert(*v);
                    put_var(out, n + 1);
                }
            }
        }
        put_var(out, self.pos);
        if self.track_returned {
            put_var(out, self.returned.len());
            for r in &self.returned {
                put_var(out, *r);
            }
        }
    }

    /// Everything reachable from v (incl. v) if all of it is present, else None.
    pub fn reachable_present(&self, v: usize) -> Option<BTreeSet<usize>> {
        let mut seen = BTreeSet::new();
        let mut todo = vec![v];
        while let Some(x) = todo.pop() {
            let m = self.present.get(&x)?;
            if seen.insert(x) {
                for (_, t) in &m.edges {
                    todo.push(*t);
                }
            }
        }
        Some(seen)
    }
}

pub fn put_var(out: &mut Vec<u8>, mut x: usize) {
    loop {
        let b = (x & 0x7F) as u8;
        x >>= 7;
        if x == 0 {
            out.push(b);
            return;
        }
        out.push(b | 0x80);
    }
}
