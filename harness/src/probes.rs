//! Per-state probes (run on copies, the explored state is untouched).

use crate::hx::{Finding, HxCfg};
use crate::model::{Model, Op};
use sodg::Sodg;
use std::collections::BTreeMap;

#[allow(clippy::too_many_arguments)]
pub fn run_all<const N: usize>(
    _cfg: &HxCfg,
    _g: &Sodg<N>,
    _m: &Model,
    _hist: &dyn Fn() -> Vec<Op>,
    _out: &mut Vec<Finding>,
    _runs: &mut u64,
    _counters: &mut BTreeMap<&'static str, u64>,
) {
}
