//! Per-state probes (run on copies, the explored state is untouched).

use crate::hx::{drain_trace, drain_trace_owned, Finding, HxCfg};
use crate::menu::{dat_bytes, lab, lab_text};
use crate::model::{Model, Op};
use crate::parse::{self, PVertex};
use crate::real::{exact_copy, guarded, kids_of, reload, replay, thread_file};
use rustc_hash::{FxHashMap, FxHashSet};
use sodg::{Label, Sodg};
use std::cell::RefCell;
use std::collections::{BTreeMap, BTreeSet};
use std::sync::Mutex;

/// State shared by all workers of one run (differential oracles, dedup of images).
#[derive(Default, Debug)]
pub struct Shared {
    /// canonical graph -> (hash of xml, hash of dot, history that produced it)
    pub exports: Mutex<FxHashMap<Vec<u8>, (u64, u64, Vec<Op>)>>,
    /// distinct images already cut
    pub images: Mutex<FxHashSet<Vec<u8>>>,
}

fn bump(c: &mut BTreeMap<&'static str, u64>, k: &'static str, by: u64) {
    *c.entry(k).or_insert(0) += by;
}

fn h64(s: &str) -> u64 {
    use std::hash::{Hash, Hasher};
    let mut h = rustc_hash::FxHasher::default();
    s.hash(&mut h);
    h.finish()
}

/// What the model says the documents must show.
pub fn expected_vertices(m: &Model) -> Vec<PVertex> {
    m.present
        .iter()
        .map(|(v, mv)| PVertex {
            id: *v,
            edges: mv.edges.iter().map(|(l, t)| (lab_text(*l), *t)).collect(),
            data: mv.data.map(dat_bytes),
        })
        .collect()
}

fn sorted_edges(e: &[(String, usize)]) -> Vec<(String, usize)> {
    let mut e = e.to_vec();
    e.sort();
    e
}

/// Compare a parsed document with the model. `what` names the document.
pub fn compare_document(what: &str, got: &[PVertex], exp: &[PVertex], check_order: bool, tags: &[&'static str]) -> Vec<Finding> {
    let mut out = vec![];
    let gids: Vec<usize> = got.iter().map(|v| v.id).collect();
    let eids: Vec<usize> = exp.iter().map(|v| v.id).collect();
    let gset: BTreeSet<usize> = gids.iter().copied().collect();
    let eset: BTreeSet<usize> = eids.iter().copied().collect();
    let extra: Vec<usize> = gset.difference(&eset).copied().collect();
    let missing: Vec<usize> = eset.difference(&gset).copied().collect();
    if !extra.is_empty() {
        out.push(Finding::new(&format!("{what}-lists-absent-vertex"), tags, format!("{what} has nodes for {extra:?}, which are not present (present: {eids:?})")));
    }
    if !missing.is_empty() {
        out.push(Finding::new(&format!("{what}-misses-vertex"), tags, format!("{what} has no node for the present vertices {missing:?}")));
    }
    if gids.len() != gset.len() {
        out.push(Finding::new(&format!("{what}-duplicate-vertex"), tags, format!("{what} lists a vertex more than once: {gids:?}")));
    }
    if check_order && gids.windows(2).any(|w| w[0] >= w[1]) {
        out.push(Finding::new(&format!("{what}-order"), tags, format!("{what} does not list the vertices in ascending id order: {gids:?}")));
    }
    for e in exp {
        let Some(g) = got.iter().find(|v| v.id == e.id) else { continue };
        if sorted_edges(&g.edges) != sorted_edges(&e.edges) {
            out.push(Finding::new(&format!("{what}-edges"), tags, format!("{what} shows edges {:?} for ν{} but the vertex has {:?}", g.edges, e.id, e.edges)));
        }
        if g.data != e.data {
            out.push(Finding::new(&format!("{what}-data"), tags, format!("{what} shows data {:?} for ν{} but the vertex has {:?}", g.data, e.id, e.data)));
        }
    }
    out
}

fn canonical_graph(m: &Model) -> Vec<u8> {
    // by label VALUE (menu index), not by printed text: two labels may print alike
    let mut out = vec![];
    for (v, mv) in &m.present {
        let mut e = mv.edges.clone();
        e.sort_unstable();
        out.extend_from_slice(format!("{v}:{e:?}:{:?};", mv.data.map(dat_bytes)).as_bytes());
    }
    out
}

pub fn exports_probe<const N: usize>(cfg: &HxCfg, g: &Sodg<N>, m: &Model, hist: &dyn Fn() -> Vec<Op>, out: &mut Vec<Finding>) {
    let exp = expected_vertices(m);
    let tags: &[&'static str] = &["C18"];
    let xml = match guarded(|| g.to_xml()) {
        Ok(Ok(x)) => x,
        Ok(Err(e)) => {
            out.push(Finding::new("xml-error", tags, format!("to_xml() returned Err: {e:#}")));
            return;
        }
        Err(e) => {
            out.push(Finding::new("xml-panic", tags, format!("to_xml() panicked: {e}")));
            return;
        }
    };
    match parse::parse_xml(&xml) {
        Ok(pv) => out.extend(compare_document("xml", &pv, &exp, true, tags)),
        Err(e) => out.push(Finding::new("xml-unparsable", tags, format!("cannot read the XML back: {e}"))),
    }
    let dot = match guarded(|| g.to_dot()) {
        Ok(d) => d,
        Err(e) => {
            out.push(Finding::new("dot-panic", tags, format!("to_dot() panicked: {e}")));
            return;
        }
    };
    match parse::parse_dot(&dot) {
        Ok(pv) => out.extend(compare_document("dot", &pv, &exp, true, tags)),
        Err(e) => out.push(Finding::new("dot-unparsable", tags, format!("cannot read the DOT back: {e}"))),
    }
    // the same OBJECT exported again after each read of a datum (a collection in between must show)
    if let Some(mut c) = exact_copy(g) {
        let mut mc = m.clone();
        let _ = guarded(|| c.to_xml());
        let _ = guarded(|| c.to_dot());
        for v in m.keys() {
            if !mc.present.contains_key(&v) || mc.present[&v].data.is_none() {
                continue;
            }
            if guarded(|| c.data(v)).is_err() {
                break;
            }
            mc.apply(&Op::Data(v));
            if guarded(|| crate::real::keys_sorted(&c)).ok() != Some(mc.keys()) {
                break; // the collection itself went differently: C01/C02 judge that, not C18
            }
            let e2 = expected_vertices(&mc);
            let n0 = out.len();
            if let Ok(Ok(x)) = guarded(|| c.to_xml()) {
                if let Ok(pv) = parse::parse_xml(&x) {
                    out.extend(compare_document("xml", &pv, &e2, true, tags));
                }
            }
            if let Ok(d) = guarded(|| c.to_dot()) {
                if let Ok(pv) = parse::parse_dot(&d) {
                    out.extend(compare_document("dot", &pv, &e2, true, tags));
                }
            }
            if out.len() > n0 {
                for f in out[n0..].iter_mut() {
                    f.kind = format!("{}-when-exported-again-after-a-read", f.kind);
                    f.detail = format!("exported, then data({v}) read, then exported again from the same object: {}", f.detail);
                }
                return;
            }
        }
    }
    // build-independence: same present vertices, edges, data => same text
    let key = canonical_graph(m);
    let (hx, hd) = (h64(&xml), h64(&dot));
    let mut map = cfg.shared.exports.lock().unwrap();
    match map.get(&key) {
        None => {
            map.insert(key, (hx, hd, hist()));
        }
        Some((ox, od, oh)) => {
            if *ox != hx || *od != hd {
                let mut f = Finding::new(
                    "export-depends-on-build-history",
                    tags,
                    format!(
                        "the {} text differs from the one produced for the same present vertices, edges and data after the history `{}`",
                        if *ox != hx { "XML" } else { "DOT" },
                        crate::model::hist_text(oh)
                    ),
                );
                f.aux = Some(oh.clone());
                out.push(f);
            }
        }
    }
}

/// edges (source, label text, target) of everything reachable from v, per the model
fn reachable_edges(m: &Model, reach: &BTreeSet<usize>) -> Vec<(usize, String, usize)> {
    let mut e = vec![];
    for x in reach {
        for (l, t) in &m.present[x].edges {
            e.push((*x, lab_text(*l), *t));
        }
    }
    e.sort();
    e
}

pub fn texts_probe<const N: usize>(g: &Sodg<N>, m: &Model, out: &mut Vec<Finding>, counters: &mut BTreeMap<&'static str, u64>) {
    let tags: &[&'static str] = &["C20"];
    let exp = expected_vertices(m);
    for v in m.keys() {
        let reach = m.reachable_present(v);
        crate::inflight::note("inspect", v);
        let r = guarded(|| g.inspect(v));
        let Some(reach) = reach else {
            // an edge leads to a collected vertex: only termination is demanded
            bump(counters, "inspect_with_dangling_edges", 1);
            continue;
        };
        match r {
            Err(e) => out.push(Finding::new("inspect-panic", tags, format!("inspect({v}) panicked: {e}"))),
            Ok(Err(e)) => out.push(Finding::new("inspect-error", tags, format!("inspect({v}) returned Err: {e:#}"))),
            Ok(Ok(txt)) => match parse::parse_inspect(&txt) {
                Err(e) => out.push(Finding::new("inspect-unparsable", tags, format!("inspect({v}): {e}\n{txt}"))),
                Ok((root, triples)) => {
                    if root != v {
                        out.push(Finding::new("inspect-root", tags, format!("inspect({v}) starts with ν{root}")));
                    }
                    let mut got: Vec<(usize, String, usize)> = triples.iter().map(|(s, l, t, _)| (*s, l.clone(), *t)).collect();
                    got.sort();
                    let want = reachable_edges(m, &reach);
                    if got != want {
                        out.push(Finding::new(
                            "inspect-edges",
                            tags,
                            format!("inspect({v}) lists the edges {got:?} but the edges of the vertices reachable from ν{v}, each once, are {want:?}\n{txt}"),
                        ));
                    }
                    if reach.len() > 1 && want.len() >= reach.len() {
                        bump(counters, "inspect_on_cyclic_or_shared_shapes", 1);
                    }
                }
            },
        }
        match guarded(|| g.v_print(v)) {
            Err(e) => out.push(Finding::new("vprint-panic", tags, format!("v_print({v}) panicked: {e}"))),
            Ok(Err(e)) => out.push(Finding::new("vprint-error", tags, format!("v_print({v}) returned Err: {e:#}"))),
            Ok(Ok(txt)) => match parse::parse_vprint(&txt) {
                Err(e) => out.push(Finding::new("vprint-unparsable", tags, e)),
                Ok((id, marker, labels)) => {
                    let mv = &m.present[&v];
                    if id != v {
                        out.push(Finding::new("vprint-id", tags, format!("v_print({v}) prints ν{id}")));
                    }
                    if marker != mv.data.is_some() {
                        out.push(Finding::new("vprint-marker", tags, format!("v_print({v})={txt:?}: data marker shown={marker} but has data={}", mv.data.is_some())));
                    }
                    let mut got = labels.clone();
                    got.sort();
                    let mut want: Vec<String> = mv.edges.iter().map(|(l, _)| lab_text(*l)).collect();
                    want.sort();
                    if got != want {
                        out.push(Finding::new("vprint-labels", tags, format!("v_print({v})={txt:?} lists labels {got:?} but the vertex has {want:?}")));
                    }
                }
            },
        }
    }
    crate::inflight::note("debug", 0);
    for (name, r) in [("Debug", guarded(|| format!("{g:?}"))), ("Display", guarded(|| format!("{g}")))] {
        match r {
            Err(e) => out.push(Finding::new("debug-panic", tags, format!("{name} formatting panicked: {e}"))),
            Ok(txt) => match parse::parse_debug(&txt) {
                Err(e) => out.push(Finding::new("debug-unparsable", tags, format!("{name}: {e}"))),
                Ok(pv) => out.extend(compare_document(if name == "Debug" { "debug" } else { "display" }, &pv, &exp, false, tags)),
            },
        }
    }
}

/// Reference reachability under a predicate (edges by index of acceptance).
pub fn ref_reach(m: &Model, v: usize, p: &dyn Fn(usize, usize, u8) -> bool) -> BTreeSet<usize> {
    let mut seen = BTreeSet::new();
    seen.insert(v);
    let mut todo = vec![v];
    while let Some(x) = todo.pop() {
        if let Some(mx) = m.present.get(&x) {
            for (l, t) in &mx.edges {
                if p(x, *t, *l) && seen.insert(*t) {
                    todo.push(*t);
                }
            }
        }
    }
    seen
}

fn label_index(l: &Label, _labels: &[u8]) -> Option<u8> {
    // the whole menu: merge transitions bring labels the bind alphabet lacks
    (0..=255u8).find(|i| lab(*i) == *l)
}

/// Judge one slice against the model. `p` is the predicate on (from, to, label index).
pub fn judge_slice<const N: usize>(
    what: &str,
    s: &Sodg<N>,
    m: &Model,
    v: usize,
    labels: &[u8],
    p: &dyn Fn(usize, usize, u8) -> bool,
    out: &mut Vec<Finding>,
) {
    let tags: &[&'static str] = &["C13"];
    let want = ref_reach(m, v, p);
    let keys: BTreeSet<usize> = guarded(|| s.keys()).unwrap_or_default().into_iter().collect();
    if keys != want {
        out.push(Finding::new("slice-vertices", tags, format!("{what}: the slice has the vertices {keys:?} but those reachable from ν{v} along accepted edges are {want:?}")));
        return;
    }
    for x in &want {
        let got = guarded(|| kids_of(s, *x)).unwrap_or_default();
        let src = &m.present[x].edges;
        // nothing invented
        for (l, t) in &got {
            let li = label_index(l, labels);
            if !li.is_some_and(|li| src.iter().any(|(a, b)| *a == li && b == t)) {
                out.push(Finding::new("slice-invented-edge", tags, format!("{what}: the slice has the edge ν{x}.{l}->ν{t}, which the source lacks")));
            }
        }
        // every accepted edge between kept vertices is there
        for (a, t) in src {
            if want.contains(t) && p(*x, *t, *a) && !got.iter().any(|(l, b)| *l == lab(*a) && b == t) {
                out.push(Finding::new("slice-lost-edge", tags, format!("{what}: the accepted edge ν{x}.{}->ν{t} between kept vertices is missing in the slice", lab_text(*a))));
            }
        }
    }
}

/// All drain orders of slice's work-list, enumerated through the hook (capped).
pub fn for_each_drain_order(limit: usize, mut run: impl FnMut() -> bool) -> usize {
    // DFS over choice sequences: run with a preset, read the arities taken, advance like an odometer
    let mut preset: Vec<usize> = vec![];
    let mut runs = 0;
    loop {
        sodg::verif::install_choices(preset.clone());
        let go_on = run();
        let taken = sodg::verif::remove_choices().map(|c| c.taken).unwrap_or_default();
        runs += 1;
        if !go_on || runs >= limit {
            break;
        }
        // next sequence
        let mut seq: Vec<(usize, usize)> = taken;
        loop {
            match seq.pop() {
                None => return runs,
                Some((c, arity)) => {
                    if c + 1 < arity {
                        seq.push((c + 1, arity));
                        break;
                    }
                }
            }
        }
        preset = seq.iter().map(|(c, _)| *c).collect();
    }
    runs
}

pub fn slice_probe<const N: usize>(cfg: &HxCfg, g: &Sodg<N>, m: &Model, out: &mut Vec<Finding>, counters: &mut BTreeMap<&'static str, u64>) {
    let tags: &[&'static str] = &["C13"];
    let before = guarded(|| g.verif_snapshot()).ok();
    for v in m.keys() {
        let Some(reach) = m.reachable_present(v) else {
            bump(counters, "slice_skipped_dangling", 1);
            continue;
        };
        if reach.len() > 14 {
            continue;
        }
        crate::inflight::note("slice", v);
        // predicates: everything; reject one label; reject edges into one vertex; by parity of the source
        let mut preds: Vec<(String, Box<dyn Fn(usize, usize, u8) -> bool>)> = vec![("slice".to_string(), Box::new(|_, _, _| true))];
        for l in &cfg.labels {
            let l = *l;
            preds.push((format!("slice_some(reject label {})", lab_text(l)), Box::new(move |_, _, a| a != l)));
        }
        for t in reach.iter().copied() {
            preds.push((format!("slice_some(reject edges into ν{t})"), Box::new(move |_, to, _| to != t)));
        }
        preds.push(("slice_some(only edges from even ids)".to_string(), Box::new(|f, _, _| f % 2 == 0)));
        preds.push(("slice_some(reject all)".to_string(), Box::new(|_, _, _| false)));
        for (name, p) in &preds {
            let what = format!("{name} at ν{v}");
            let labels = cfg.labels.clone();
            let runs = for_each_drain_order(24, || {
                let r = if name == "slice" {
                    guarded(|| g.slice(v))
                } else {
                    guarded(|| g.slice_some(v, |f, t, a| label_index(&a, &labels).is_some_and(|li| p(f, t, li))))
                };
                match r {
                    Err(e) => {
                        out.push(Finding::new("slice-panic", tags, format!("{what} panicked: {e}")));
                        false
                    }
                    Ok(Err(e)) => {
                        out.push(Finding::new("slice-error", tags, format!("{what} returned Err: {e:#}")));
                        false
                    }
                    Ok(Ok(s)) => {
                        let n0 = out.len();
                        judge_slice(&what, &s, m, v, &cfg.labels, p.as_ref(), out);
                        // a slice of the slice, taken the same way, must be the same sub-graph again
                        if out.len() == n0 && name == "slice" {
                            match guarded(|| s.slice(v)) {
                                Ok(Ok(s2)) => judge_slice(&format!("{what}, sliced once more"), &s2, m, v, &cfg.labels, p.as_ref(), out),
                                Ok(Err(e)) => out.push(Finding::new("slice-error", tags, format!("{what}, sliced once more, returned Err: {e:#}"))),
                                Err(e) => out.push(Finding::new("slice-panic", tags, format!("{what}, sliced once more, panicked: {e}"))),
                            }
                        }
                        out.len() == n0
                    }
                }
            });
            bump(counters, "slices_judged", runs as u64);
            if reach.len() > 1 && reachable_edges(m, &reach).len() >= reach.len() {
                bump(counters, "slices_of_cyclic_or_shared_shapes", 1);
            }
        }
    }
    if let (Some(b), Ok(a)) = (before, guarded(|| g.verif_snapshot())) {
        if a != b {
            out.push(Finding::new("slice-changed-source", tags, "the source graph changed while it was sliced".to_string()));
        }
    }
}

/// C04 on the graphs slice() returns: every id below the source's capacity can be added to the
/// slice - a kept vertex is left alone, any other id gives a blank present vertex - and so can
/// the ids its next_id() hands out.
pub fn slice_add_probe<const N: usize>(g: &Sodg<N>, m: &Model, out: &mut Vec<Finding>, counters: &mut BTreeMap<&'static str, u64>) {
    let tags: &[&'static str] = &["C04"];
    for v in m.keys() {
        let Some(reach) = m.reachable_present(v) else { continue };
        if reach.len() > 14 {
            continue;
        }
        let Ok(Ok(s0)) = guarded(|| g.slice(v)) else { continue }; // C13 judges slice() itself
        if guarded(|| crate::real::keys_sorted(&s0)).ok() != Some(reach.iter().copied().collect::<Vec<usize>>()) {
            continue;
        }
        for id in 0..m.cap {
            let Ok(mut s) = guarded(|| g.slice(v).unwrap()) else { break };
            let kids_before = guarded(|| kids_of(&s, id)).ok();
            match guarded(|| s.add(id)) {
                Err(e) => {
                    out.push(Finding::new("add-on-slice-panics", tags, format!("add({id}) on slice({v}) (source capacity {}) panicked: {e}", m.cap)));
                    return;
                }
                Ok(()) => {
                    let present = guarded(|| s.keys()).unwrap_or_default().contains(&id);
                    let kids = guarded(|| kids_of(&s, id)).unwrap_or_default();
                    if !present {
                        out.push(Finding::new("add-on-slice-ignored", tags, format!("after add({id}) on slice({v}) the vertex is not present")));
                        return;
                    }
                    if reach.contains(&id) {
                        if Some(&kids) != kids_before.as_ref() {
                            out.push(Finding::new("add-on-slice-changed-present", tags, format!("add({id}) on slice({v}) changed the edges of the kept vertex")));
                            return;
                        }
                    } else if !kids.is_empty() || guarded(|| s.data(id)).ok().flatten().is_some() {
                        out.push(Finding::new("add-on-slice-not-blank", tags, format!("add({id}) on slice({v}) gives a vertex that is not blank: {:?}", fmt_kids(&kids))));
                        return;
                    }
                }
            }
            bump(counters, "adds_on_slices", 1);
        }
        // and what its own allocator hands out
        if let Ok(mut s) = guarded(|| g.slice(v).unwrap()) {
            if reach.len() < m.cap {
                match guarded(|| s.next_id()) {
                    Ok(id) if id < m.cap && !reach.contains(&id) => {
                        if guarded(|| s.add(id)).is_err() {
                            out.push(Finding::new("add-on-slice-panics", tags, format!("add(next_id()={id}) on slice({v}) panicked")));
                            return;
                        }
                    }
                    Ok(id) => {
                        out.push(Finding::new("slice-next-id", &["C05", "C04"], format!("next_id() on slice({v}) returned {id} (kept: {reach:?}, capacity {})", m.cap)));
                        return;
                    }
                    Err(e) => {
                        out.push(Finding::new("slice-next-id", &["C05", "C04"], format!("next_id() on slice({v}) panicked although ids are free: {e}")));
                        return;
                    }
                }
            }
        }
    }
}

fn fmt_kids(k: &[(Label, usize)]) -> String {
    crate::hx::fmt_edges(k)
}

/// Every public observable of a graph as one text (used for "answers every query alike").
pub fn observe_all<const N: usize>(g: &Sodg<N>, with_slices: bool) -> String {
    let mut t = String::new();
    let keys = guarded(|| crate::real::keys_sorted(g)).unwrap_or_default();
    t.push_str(&format!("keys={keys:?} len={:?} is_empty={:?}\n", guarded(|| g.len()).ok(), guarded(|| g.is_empty()).ok()));
    for v in &keys {
        let kids = guarded(|| kids_of(g, *v)).unwrap_or_default();
        t.push_str(&format!("kids({v})={}\n", crate::hx::fmt_edges(&kids)));
        for (l, _) in &kids {
            t.push_str(&format!("kid({v},{l})={:?}\n", guarded(|| g.kid(*v, *l)).ok().flatten()));
        }
        t.push_str(&format!("v_print({v})={:?}\n", guarded(|| g.v_print(*v).ok()).ok().flatten()));
        t.push_str(&format!("inspect({v})={:?}\n", guarded(|| g.inspect(*v).ok()).ok().flatten()));
        if with_slices {
            // the slice with everything it shows, incl. how its vertices are grouped (Debug lists the groups)
            t.push_str(&format!("slice({v})={:?}\n", guarded(|| g.slice(*v).ok().map(|s| (crate::real::keys_sorted(&s), format!("{s:?}")))).ok().flatten()));
        }
    }
    t.push_str(&format!("debug={:?}\n", guarded(|| format!("{g:?}")).ok()));
    t.push_str(&format!("xml={:?}\n", guarded(|| g.to_xml().ok()).ok().flatten()));
    t.push_str(&format!("dot={:?}\n", guarded(|| g.to_dot()).ok()));
    t
}

fn first_diff(a: &str, b: &str) -> String {
    for (la, lb) in a.lines().zip(b.lines()) {
        if la != lb {
            return format!("`{la}` vs `{lb}`");
        }
    }
    format!("{} vs {} lines", a.lines().count(), b.lines().count())
}

/// What a graph does from here on: reads of everything in both orders, then fresh ids.
pub fn future_trace<const N: usize>(g: &Sodg<N>, keys: &[usize]) -> Option<Vec<String>> {
    let mut t = drain_trace(g, keys, false)?;
    t.push("--".to_string());
    t.extend(drain_trace(g, keys, true)?);
    t.push("--".to_string());
    t.extend(next_ids_owned(exact_copy(g)?));
    Some(t)
}

/// the next two ids an object we own hands out (each added); then the two are bound into a new
/// group, one gets a datum, the datum is read: the new group must die (a stale counter or member
/// list left in a free slot shows here)
fn next_ids_owned<const N: usize>(mut c: Sodg<N>) -> Vec<String> {
    let mut t = vec![];
    let mut got: Vec<usize> = vec![];
    {
        for _ in 0..2 {
            let free = guarded(|| c.keys().len()).unwrap_or(0) < c.verif_snapshot().vertices.len();
            if !free {
                break;
            }
            match guarded(|| c.next_id()) {
                Ok(id) => {
                    t.push(format!("next_id()={id}"));
                    let _ = guarded(|| c.add(id));
                    got.push(id);
                }
                Err(_) => {
                    t.push("next_id() panicked".to_string());
                    break;
                }
            }
        }
        if got.len() == 2 && got[0] != got[1] {
            let r = guarded(|| {
                c.bind(got[0], got[1], lab(0));
                c.put(got[1], &crate::menu::dat(0));
                let d = c.data(got[1]).map(|h| crate::hx::raw_hex(&h));
                (d, crate::real::keys_sorted(&c))
            });
            t.push(format!("new group of the two, put, read: {r:?}"));
        }
    }
    t
}

pub fn clone_probe<const N: usize>(cfg: &HxCfg, g: &Sodg<N>, m: &Model, hist: &dyn Fn() -> Vec<Op>, ops: &[Op], out: &mut Vec<Finding>, counters: &mut BTreeMap<&'static str, u64>) {
    let tags: &[&'static str] = &["C10"];
    let h = hist();
    // the original: rebuilt from Sodg::empty() by replaying the whole history (no clone() involved)
    let Ok(orig) = replay::<N>(cfg.cap, &h) else { return };
    let Ok(orig2) = replay::<N>(cfg.cap, &h) else { return };
    let c = match guarded(|| orig.clone()) {
        Ok(c) => c,
        Err(e) => {
            out.push(Finding::new("clone-panic", tags, format!("clone() panicked: {e}")));
            return;
        }
    };
    let (oa, ob) = (observe_all(&orig, true), observe_all(&c, true));
    if oa != ob {
        if observe_all(&orig, true) != oa || observe_all(&c, true) != ob {
            out.push(Finding::new("observable-not-deterministic", &["C19"], "asking the same graph the same queries twice gives different answers".to_string()));
            return;
        }
        out.push(Finding::new("clone-answers-differ", tags, format!("the clone answers a query differently: {}", first_diff(&oa, &ob))));
        return;
    }
    // differential check of the explorer's own use of clone(): the state reached through clones
    let og = observe_all(g, true);
    if og != oa && (observe_all(g, true) != og || observe_all(&orig, true) != oa) {
        out.push(Finding::new("observable-not-deterministic", &["C19"], "asking the same graph the same queries twice gives different answers".to_string()));
        return;
    }
    if og != oa {
        out.push(Finding::new("clone-lineage-differs", tags, format!("the object reached through a chain of clone()s differs from the one rebuilt from scratch: {}", first_diff(&og, &oa))));
        return;
    }
    // same future: reads in both orders, ids handed out
    let keys = m.keys();
    // the original's future is computed on objects rebuilt from scratch (no clone() involved);
    // the clone's future on raw clones of the clone
    let (Ok(orig3), Ok(orig4)) = (replay::<N>(cfg.cap, &h), replay::<N>(cfg.cap, &h)) else { return };
    let mut fa = drain_trace_owned(orig2, &keys, false);
    fa.push("--".to_string());
    fa.extend(drain_trace_owned(orig3, &keys, true));
    fa.push("--".to_string());
    fa.extend(next_ids_owned(orig4));
    // and composed: everything is read (collections give ids back), THEN ids are handed out
    if let Ok(mut o) = replay::<N>(cfg.cap, &h) {
        fa.push("-- reads, then ids".to_string());
        let _ = crate::hx::drain_trace_mut(&mut o, &keys, false);
        fa.extend(next_ids_owned(o));
    }
    let mut fb = vec![];
    match (guarded(|| c.clone()), guarded(|| c.clone()), guarded(|| c.clone())) {
        (Ok(c1), Ok(c2), Ok(c3)) => {
            let c4 = guarded(|| c.clone());
            fb.extend(drain_trace_owned(c1, &keys, false));
            fb.push("--".to_string());
            fb.extend(drain_trace_owned(c2, &keys, true));
            fb.push("--".to_string());
            fb.extend(next_ids_owned(c3));
            if let Ok(mut c4) = c4 {
                fb.push("-- reads, then ids".to_string());
                let _ = crate::hx::drain_trace_mut(&mut c4, &keys, false);
                fb.extend(next_ids_owned(c4));
            }
        }
        _ => fb.push("clone() of the clone panicked".to_string()),
    }
    if fa != fb {
        let i = fa.iter().zip(fb.iter()).position(|(a, b)| a != b).unwrap_or(fa.len().min(fb.len()));
        out.push(Finding::new("clone-future-differs", tags, format!("given the same calls the clone behaves differently: original {:?}, clone {:?}", fa.get(i), fb.get(i))));
        return;
    }
    bump(counters, "clone_futures_compared", 1);
    // Clone::clone_from into a target that has lived before must give the same copy
    if let Ok(orig5) = replay::<N>(cfg.cap, &h) {
        let built = guarded(|| {
            let mut t: Sodg<N> = Sodg::empty(cfg.cap);
            let ids: Vec<usize> = (0..cfg.cap.min(3)).collect();
            for v in &ids {
                t.add(*v);
            }
            if ids.len() >= 2 {
                t.bind(ids[0], ids[1], lab(0));
                t.put(ids[1], &crate::menu::dat(1));
            }
            t.clone_from(&orig5);
            t
        });
        if let Ok(t) = built {
            let ot = observe_all(&t, true);
            if ot != oa {
                out.push(Finding::new("clone-from-answers-differ", tags, format!("a.clone_from(&b) into a graph that had lived before answers a query differently from b: {}", first_diff(&oa, &ot))));
                return;
            }
            let mut ft = drain_trace_owned(t, &keys, false);
            ft.push("--".to_string());
            if let Ok(t2) = guarded(|| {
                let mut t: Sodg<N> = Sodg::empty(cfg.cap);
                for v in 0..cfg.cap.min(3) {
                    t.add(v);
                }
                if cfg.cap >= 2 {
                    t.bind(0, 1, lab(0));
                    t.put(1, &crate::menu::dat(1));
                }
                t.clone_from(&orig5);
                t
            }) {
                ft.extend(next_ids_owned(t2));
            }
            // compare with the original's ascending drain and its next ids (computed above as parts of fa)
            // fa = ascending reads, "--", descending reads, "--", next ids, "-- reads, then ids", ...
            let sections: Vec<Vec<String>> = fa.split(|x| x.starts_with("--")).map(<[String]>::to_vec).collect();
            let asc: Vec<String> = sections.first().cloned().unwrap_or_default();
            let ids_part: Vec<String> = sections.get(2).cloned().unwrap_or_default();
            let mut want = asc;
            want.push("--".to_string());
            want.extend(ids_part);
            if ft != want {
                let i = ft.iter().zip(want.iter()).position(|(a, b)| a != b).unwrap_or(ft.len().min(want.len()));
                out.push(Finding::new("clone-from-future-differs", tags, format!("a.clone_from(&b) into a graph that had lived before behaves differently from b afterwards: b {:?}, a {:?}", want.get(i), ft.get(i))));
                return;
            }
        }
    }
    // independence: mutating the clone never changes the original, and vice versa
    let snap = orig.verif_snapshot();
    let impl_pos = snap.next_v;
    for op in ops {
        if matches!(op, Op::CloneSwap | Op::CloneFromSwap | Op::ReloadSwap) || !m.enabled(op, impl_pos) {
            continue;
        }
        let Ok(mut c2) = guarded(|| orig.clone()) else { continue };
        let _ = crate::real::apply_real(&mut c2, op);
        if orig.verif_snapshot() != snap {
            out.push(Finding::new("clone-not-independent", tags, format!("{} on the clone changed the original", op.text())));
            return;
        }
        bump(counters, "clone_independence_checks", 1);
    }
    // and the other way round: mutate the original, the clone stays
    let csnap = c.verif_snapshot();
    let mut o = orig;
    for op in ops {
        if matches!(op, Op::CloneSwap | Op::CloneFromSwap | Op::ReloadSwap | Op::Merge(..) | Op::MergeFail(..)) || !m.enabled(op, impl_pos) {
            continue;
        }
        if crate::real::apply_real(&mut o, op).is_err() {
            break;
        }
        if c.verif_snapshot() != csnap {
            out.push(Finding::new("clone-not-independent", tags, format!("{} on the original changed the clone", op.text())));
            return;
        }
        break; // one mutation of the original is enough per state; the model no longer describes `o`
    }
}

/// What the path holds before a probed save(): the complete image of another, bigger graph (an
/// earlier checkpoint, written by save() itself) followed by filler up to 64 KiB. Whatever of it
/// survives the new save() - a tail, a renamed copy next to the file - is recognisably not the new graph.
fn older_checkpoint<const N: usize>() -> Vec<u8> {
    thread_local! {
        static OLDER: RefCell<BTreeMap<usize, Vec<u8>>> = const { RefCell::new(BTreeMap::new()) };
    }
    if let Some(b) = OLDER.with(|o| o.borrow().get(&N).cloned()) {
        return b;
    }
    let mut bytes = guarded(|| {
        let mut b: Sodg<N> = Sodg::empty(40);
        for v in [0usize, 1, 2, 30] {
            b.add(v);
        }
        b.bind(0, 1, lab(0));
        b.bind(1, 2, lab(0));
        b.put(2, &crate::menu::dat(6));
        b.put(30, &crate::menu::dat(0));
        let f = thread_file("older");
        match b.save(&f) {
            Ok(_) => std::fs::read(&f).unwrap_or_default(),
            Err(_) => vec![],
        }
    })
    .unwrap_or_default();
    bytes.resize(1 << 16, 0xAA);
    OLDER.with(|o| o.borrow_mut().insert(N, bytes.clone()));
    bytes
}

pub fn reload_probe<const N: usize>(g: &Sodg<N>, m: &Model, out: &mut Vec<Finding>, counters: &mut BTreeMap<&'static str, u64>) -> Option<Vec<u8>> {
    let tags: &[&'static str] = &["C08"];
    let f = thread_file("probe");
    // the path already holds a longer file (a second checkpoint over a bigger first one): save() must
    // leave exactly the new image there
    let _ = std::fs::write(&f, older_checkpoint::<N>());
    match guarded(|| g.save(&f)) {
        Err(e) => {
            out.push(Finding::new("save-panic", tags, format!("save() panicked: {e}")));
            return None;
        }
        Ok(Err(e)) => {
            out.push(Finding::new("save-error", tags, format!("save() returned Err: {e:#}")));
            return None;
        }
        Ok(Ok(size)) => {
            let bytes = std::fs::read(&f).unwrap_or_default();
            if bytes.len() != size {
                out.push(Finding::new("save-size", tags, format!("save() returned {size} but the file has {} bytes", bytes.len())));
            }
            let l: Sodg<N> = match guarded(|| Sodg::load(&f)) {
                Err(e) => {
                    out.push(Finding::new("load-panic", &["C08", "C09"], format!("load() of a complete image panicked: {e}")));
                    return Some(bytes);
                }
                Ok(Err(e)) => {
                    out.push(Finding::new("load-error", &["C08", "C09"], format!("load() of a complete image returned Err: {e:#}")));
                    return Some(bytes);
                }
                Ok(Ok(l)) => l,
            };
            let (oa, ob) = (observe_all(g, true), observe_all(&l, true));
            if oa != ob && (observe_all(g, true) != oa || observe_all(&l, true) != ob) {
                out.push(Finding::new("observable-not-deterministic", &["C19"], "asking the same graph the same queries twice gives different answers".to_string()));
                return Some(bytes);
            }
            if oa != ob {
                out.push(Finding::new("reload-answers-differ", tags, format!("the reloaded graph answers a query differently: {}", first_diff(&oa, &ob))));
                return Some(bytes);
            }
            // same future reads (the allocator may restart: ids are judged by C05 only)
            let keys = m.keys();
            for desc in [false, true] {
                // without exact copies of both nothing can be compared (C10 judges clone())
                let (Some(a), Some(b)) = (drain_trace(g, &keys, desc), drain_trace(&l, &keys, desc)) else { break };
                if a != b {
                    let i = a.iter().zip(b.iter()).position(|(x, y)| x != y).unwrap_or(a.len().min(b.len()));
                    out.push(Finding::new("reload-future-differs", tags, format!("given the same reads the reloaded graph behaves differently: original {:?}, reloaded {:?}", a.get(i), b.get(i))));
                    return Some(bytes);
                }
            }
            // the restarted allocator still has to hand out an absent id below the capacity
            if keys.len() < m.cap {
                if let Some(mut lc) = exact_copy(&l) {
                    match guarded(|| lc.next_id()) {
                        Ok(id) => {
                            if id >= m.cap || keys.contains(&id) {
                                out.push(Finding::new("reload-next-id", &["C08", "C05"], format!("after a reload next_id() returned {id} (present: {keys:?}, capacity {})", m.cap)));
                            }
                        }
                        Err(e) => out.push(Finding::new("reload-next-id", &["C08", "C05"], format!("after a reload next_id() panicked although ids are free: {e}"))),
                    }
                }
            }
            // diagnostic only: whole-state equality modulo the allocator position
            let mut a = g.verif_snapshot();
            a.next_v = 0;
            if l.verif_snapshot() != a {
                bump(counters, "diagnostic_snapshot_differs_after_reload", 1);
            }
            bump(counters, "reloads_compared", 1);
            if m.present.values().any(|x| x.unread && x.group.is_some()) {
                bump(counters, "reload_probe_with_unread_in_group", 1);
            }
            if m.present.values().any(|x| x.data.is_some() && !x.unread) {
                bump(counters, "reload_probe_with_taken_data", 1);
            }
            if m.present.values().any(|x| x.data.is_some_and(|d| dat_bytes(d).len() > 8 || d == 4)) {
                bump(counters, "reload_probe_with_heap_data", 1);
            }
            Some(bytes)
        }
    }
}

/// CUTS: every proper prefix of the image must be rejected by load().
pub fn cuts_of_image<const N: usize>(bytes: &[u8], out: &mut Vec<Finding>, counters: &mut BTreeMap<&'static str, u64>) {
    let tags: &[&'static str] = &["C09"];
    // cut IN PLACE: the very file save() wrote (over an older, longer file) is shortened byte by byte,
    // as a crash during the write of a second checkpoint would leave it
    let f = thread_file("probe");
    if std::fs::read(&f).ok().as_deref() != Some(bytes) && std::fs::write(&f, bytes).is_err() {
        return;
    }
    let Ok(file) = std::fs::OpenOptions::new().write(true).open(&f) else { return };
    // images up to 100 000 bytes: every prefix. Bigger ones (a store of thousands of slots): every
    // prefix within the last and the first 8 KiB, the five lengths around every multiple of 4 KiB
    // (block boundaries of buffered readers), and every 1021st length
    let n = bytes.len();
    let big = n > 100_000;
    let positions: Vec<usize> = if big {
        (0..n).rev().filter(|k| *k + 8192 >= n || *k < 8192 || (*k + 2) % 4096 <= 4 || *k % 1021 == 0).collect()
    } else {
        (0..n).rev().collect()
    };
    let npos = positions.len();
    for (i, k) in positions.into_iter().enumerate() {
        if i % 1024 == 0 {
            crate::inflight::progress();
        }
        if file.set_len(k as u64).is_err() {
            return;
        }
        match guarded(|| Sodg::<N>::load(&f).map(|g| g.len())) {
            Ok(Err(_)) => {}
            Ok(Ok(n)) => {
                out.push(Finding::new("cut-image-loaded", tags, format!("an image of {} bytes cut to {k} bytes was loaded as a graph of {n} vertices instead of being rejected", bytes.len())));
                return;
            }
            Err(e) => {
                out.push(Finding::new("cut-image-panic", tags, format!("load() of an image of {} bytes cut to {k} bytes panicked: {e}", bytes.len())));
                return;
            }
        }
    }
    bump(counters, "cut_files_loaded", npos as u64);
    bump(counters, "distinct_images_cut", 1);
    if big {
        bump(counters, "big_images_cut_at_selected_lengths", 1);
    }
}

/// C19: the same history under another configuration / in a fresh object.
pub fn trace_of<const M: usize>(cap: usize, hist: &[Op]) -> String {
    let mut g: Sodg<M> = Sodg::empty(cap);
    let mut t = String::new();
    for op in hist {
        match crate::real::apply_real(&mut g, op) {
            Ok(r) => t.push_str(&format!("{} -> {r:?}\n", op.text())),
            Err(e) => {
                // the panic text may name the configuration; only the fact is compared
                let _ = e;
                t.push_str(&format!("{} -> panic\n", op.text()));
                return t;
            }
        }
    }
    t.push_str(&observe_all(&g, true));
    t
}

/// Calls on unrelated graphs, chosen to leave traces in any hidden state (scratch buffers,
/// caches kept in the thread or the process): a slice, a script with variables, a save and a load
/// of a larger image, inspect, and merges. With `residue` the last merges FAIL (an early-return
/// path that may skip a clean-up), otherwise the last merge succeeds.
pub fn unrelated_calls<const N: usize>(residue: bool) {
    let _ = guarded(|| {
        let mut a: Sodg<N> = Sodg::empty(12);
        for v in 0..6 {
            a.add(v);
        }
        a.bind(0, 1, lab(0));
        a.bind(1, 2, lab(0));
        a.bind(3, 4, lab(0));
        a.put(2, &crate::menu::dat(6));
        let _ = a.slice(0).map(|s| s.len());
        let mut c: Sodg<N> = Sodg::empty(12);
        let _ = sodg::Script::from_str("ADD($x); ADD($y); BIND($x, $y, foo); PUT($y, CA-FE);").deploy_to(&mut c);
        let f = thread_file("unrelated");
        if a.save(&f).is_ok() {
            let _ = Sodg::<N>::load(&f).map(|g| g.len());
        }
        let _ = a.inspect(0);
        let _ = a.next_id();
        let mut b: Sodg<N> = Sodg::empty(12);
        b.add(0);
        b.add(7);
        if residue {
            // fail: the right graph is a forest, whatever the start
            let _ = b.merge(&a, 0, 0);
            let _ = b.merge(&a, 7, 3);
        } else {
            let mut t: Sodg<N> = Sodg::empty(4);
            t.add(0);
            t.add(1);
            t.bind(0, 1, lab(0));
            let _ = b.merge(&t, 0, 0); // succeeds
        }
    });
}

/// trace_of() in a thread that has never run anything else
pub fn trace_in_fresh_thread<const M: usize>(cap: usize, hist: &[Op]) -> String {
    std::thread::scope(|s| {
        s.spawn(|| {
            crate::real::install_panic_hook();
            trace_of::<M>(cap, hist)
        })
        .join()
        .unwrap_or_else(|_| "<the fresh thread panicked>".to_string())
    })
}

pub fn lockstep_probe<const N: usize>(cfg: &HxCfg, hist: &dyn Fn() -> Vec<Op>, out: &mut Vec<Finding>, counters: &mut BTreeMap<&'static str, u64>) {
    let tags: &[&'static str] = &["C19"];
    let h = hist();
    // calls on unrelated objects in between must not matter: state hidden in the thread or the
    // process (scratch buffers, caches) would make a replay come out differently. The base trace
    // is taken after unrelated calls that all succeed, the replays after ones that end in failures.
    // The base trace is taken in a freshly spawned thread (nothing can be left over in thread-local
    // state there), the replays in this worker thread after unrelated calls that end in failures.
    let base = if cfg.probes.rerun > 0 { trace_in_fresh_thread::<N>(cfg.cap, &h) } else { trace_of::<N>(cfg.cap, &h) };
    for i in 0..cfg.probes.rerun {
        unrelated_calls::<N>(i % 2 == 0);
        let again = trace_of::<N>(cfg.cap, &h);
        bump(counters, "reruns_compared", 1);
        if again != base {
            out.push(Finding::new("rerun-differs", tags, format!("replaying the same history in a fresh object (run {}, after calls on unrelated graphs) gives a different result: {}", i + 2, first_diff(&base, &again))));
            unrelated_calls::<N>(false);
            return;
        }
    }
    if cfg.probes.rerun > 0 {
        unrelated_calls::<N>(false);
    }
    // the slices of the state reached, under every drain order of slice's work-list (a hash set):
    // the same calls must give the same slice whatever the hash seed makes of the order
    if let Ok(g) = crate::real::replay::<N>(cfg.cap, &h) {
        let keys = guarded(|| crate::real::keys_sorted(&g)).unwrap_or_default();
        for v in keys {
            let mut first: Option<String> = None;
            let mut differs = None;
            let runs = for_each_drain_order(120, || {
                let obs = match guarded(|| g.slice(v).ok().map(|s| observe_all(&s, false))) {
                    Ok(Some(o)) => o,
                    Ok(None) => "Err".to_string(),
                    Err(e) => format!("panic: {e}"),
                };
                match &first {
                    None => {
                        first = Some(obs);
                        true
                    }
                    Some(f) if *f == obs => true,
                    Some(f) => {
                        differs = Some(first_diff(f, &obs));
                        false
                    }
                }
            });
            *counters.entry("slice_drain_orders_compared").or_insert(0) += runs as u64;
            if let Some(d) = differs {
                out.push(Finding::new("slice-depends-on-drain-order", tags, format!("slice({v}) of the graph reached gives different results depending on the order in which its work-list (a hash set) is drained: {d}")));
                return;
            }
        }
    }
    for (n2, cap2) in &cfg.probes.lockstep {
        assert!(*n2 >= cfg.n && *cap2 >= cfg.cap, "the lock-step configuration must be at least as large as the base configuration");
        let other = crate::with_any_n!(*n2, M, { trace_of::<M>(*cap2, &h) });
        bump(counters, "configurations_compared", 1);
        if other != base {
            out.push(Finding::new(
                "configuration-changes-answer",
                tags,
                format!("Sodg<{}> with capacity {} and Sodg<{n2}> with capacity {cap2} answer differently: {}", cfg.n, cfg.cap, first_diff(&base, &other)),
            ));
            return;
        }
    }
}

#[allow(clippy::too_many_arguments)]
pub fn run_all<const N: usize>(
    cfg: &HxCfg,
    g: &Sodg<N>,
    m: &Model,
    hist: &dyn Fn() -> Vec<Op>,
    out: &mut Vec<Finding>,
    runs: &mut u64,
    counters: &mut BTreeMap<&'static str, u64>,
) {
    let p = &cfg.probes;
    if p.exports {
        *runs += 1;
        exports_probe(cfg, g, m, hist, out);
    }
    if p.texts {
        *runs += 1;
        texts_probe(g, m, out, counters);
    }
    if p.slice {
        *runs += 1;
        slice_probe(cfg, g, m, out, counters);
    }
    if p.slice_add {
        *runs += 1;
        slice_add_probe(g, m, out, counters);
    }
    if p.clone {
        *runs += 1;
        clone_probe(cfg, g, m, hist, &cfg.ops(), out, counters);
    }
    if p.reload || p.cuts {
        *runs += 1;
        let mut fs = vec![];
        let bytes = reload_probe(g, m, &mut fs, counters);
        if p.reload {
            out.append(&mut fs);
        } else {
            // the cuts run still needs complete images to load
            out.extend(fs.into_iter().filter(|f| f.tags.contains(&"C09")));
        }
        if p.cuts {
            if let Some(b) = bytes {
                let fresh = cfg.shared.images.lock().unwrap().insert(b.clone());
                if fresh {
                    cuts_of_image::<N>(&b, out, counters);
                }
            }
        }
    }
    if !p.lockstep.is_empty() || p.rerun > 0 {
        *runs += 1;
        lockstep_probe::<N>(cfg, hist, out, counters);
    }
    let _ = reload::<N>;
}
