//! HX - explicit-state exploration of the product (real `Sodg<N>` x reference
//! model). The transition function is the real code; states are deduplicated
//! on the complete snapshot of the real object plus the model state.

use crate::menu::{dat_bytes, lab, lab_text};
use crate::model::{fixed_tree, hist_text, put_var, Expect, Model, Op};
use crate::probes;
use crate::real::{apply_real, exact_copy, guarded, kids_of, Ret};
use rustc_hash::FxHashSet;
use sodg::verif::Snapshot;
use sodg::{Label, Sodg};
use std::collections::{BTreeMap, BTreeSet};
use std::time::{Duration, Instant};

#[derive(Clone, Debug, Default)]
pub struct Probes {
    pub drain: bool,
    pub clone: bool,
    pub reload: bool,
    pub cuts: bool,
    pub slice: bool,
    /// C04: add() on the graphs slice() returns
    pub slice_add: bool,
    pub exports: bool,
    pub texts: bool,
    /// other configurations (n, cap) every history is replayed under, C19
    pub lockstep: Vec<(usize, usize)>,
    /// replays of the history in fresh objects (run-to-run determinism), C19
    pub rerun: usize,
}

#[derive(Clone, Debug)]
pub struct HxCfg {
    pub name: String,
    pub prop: &'static str,
    pub n: usize,
    pub cap: usize,
    pub ids: Vec<usize>,
    pub labels: Vec<u8>,
    pub data: Vec<u8>,
    pub next_id: bool,
    pub add_next: bool,
    pub clone_swap: bool,
    /// `used.clone_from(&g); g = used` as a transition
    pub clone_from_swap: bool,
    pub reload_swap: bool,
    pub merges: Vec<u8>,
    /// fixed trees merged together with a stray vertex: the call must fail (Op::MergeFail)
    pub merge_fails: Vec<u8>,
    /// scripts as transitions (Op::Script): 0 = a well-formed one, 1 = one whose fifth command is malformed
    pub scripts: Vec<u8>,
    pub max_depth: usize,
    pub max_states: usize,
    pub wall: Duration,
    pub probes: Probes,
    pub seeds: Vec<(String, Vec<Op>)>,
    pub track_returned: bool,
    pub threads: usize,
    pub shared: std::sync::Arc<probes::Shared>,
}

impl HxCfg {
    pub fn new(prop: &'static str, name: &str, n: usize, cap: usize, ids: &[usize], labels: &[u8], data: &[u8]) -> Self {
        Self {
            name: name.to_string(),
            prop,
            n,
            cap,
            ids: ids.to_vec(),
            labels: labels.to_vec(),
            data: data.to_vec(),
            next_id: true,
            add_next: true,
            clone_swap: false,
            clone_from_swap: false,
            reload_swap: false,
            merges: vec![],
            merge_fails: vec![],
            scripts: vec![],
            max_depth: usize::MAX,
            max_states: 30_000_000,
            wall: Duration::from_secs(40),
            probes: Probes::default(),
            seeds: vec![],
            track_returned: false,
            threads: crate::inflight::worker_threads(),
            shared: std::sync::Arc::default(),
        }
    }

    pub fn ops(&self) -> Vec<Op> {
        let mut ops = vec![];
        for v in &self.ids {
            ops.push(Op::Add(*v));
        }
        for a in &self.ids {
            for b in &self.ids {
                for l in &self.labels {
                    ops.push(Op::Bind(*a, *b, *l));
                }
            }
        }
        for v in &self.ids {
            for d in &self.data {
                ops.push(Op::Put(*v, *d));
            }
        }
        for v in &self.ids {
            ops.push(Op::Data(*v));
        }
        if self.next_id {
            ops.push(Op::NextId);
        }
        if self.add_next {
            ops.push(Op::AddNext);
        }
        if self.clone_swap {
            ops.push(Op::CloneSwap);
        }
        if self.clone_from_swap {
            ops.push(Op::CloneFromSwap);
        }
        if self.reload_swap {
            ops.push(Op::ReloadSwap);
        }
        for k in &self.merges {
            for v in &self.ids {
                ops.push(Op::Merge(*k, *v));
            }
        }
        for k in &self.merge_fails {
            for v in &self.ids {
                ops.push(Op::MergeFail(*k, *v));
            }
        }
        for k in &self.scripts {
            for a in &self.ids {
                if *k >= 2 {
                    ops.push(Op::Script(*k, *a, 0));
                    continue;
                }
                for b in &self.ids {
                    if a != b {
                        ops.push(Op::Script(*k, *a, *b));
                    }
                }
            }
        }
        ops
    }

    pub fn describe(&self) -> String {
        format!(
            "{}: Sodg<{}> cap {} ids {:?} labels {:?} data-menu {:?} ops[{}{}{}{}{}] {} probes[{}]",
            self.name,
            self.n,
            self.cap,
            self.ids,
            self.labels.iter().map(|l| lab_text(*l)).collect::<Vec<_>>(),
            self.data,
            "add bind put data",
            if self.next_id { " next_id" } else { "" },
            if self.add_next { " add(next_id)" } else { "" },
            if self.clone_swap && self.clone_from_swap { " clone-swap clone_from-swap" } else if self.clone_swap { " clone-swap" } else if self.clone_from_swap { " clone_from-swap" } else { "" },
            if self.reload_swap { " reload-swap" } else { "" },
            if self.max_depth == usize::MAX { "to closure".to_string() } else { format!("depth {}", self.max_depth) },
            self.probe_names().join(" ")
        ) + &if self.merges.is_empty() { String::new() } else { format!(" merges {:?}", self.merges) }
            + &if self.merge_fails.is_empty() { String::new() } else { format!(" failing merges {:?}", self.merge_fails) }
            + &if self.scripts.is_empty() { String::new() } else { format!(" scripts {:?} (0 well-formed, 1 failing at its fifth command, 2 and 3 the same with a $variable for the new vertex)", self.scripts) }
            + &if self.seeds.is_empty() { String::new() } else { format!(" seeds {:?}", self.seeds.iter().map(|s| s.0.clone()).collect::<Vec<_>>()) }
    }

    pub fn probe_names(&self) -> Vec<String> {
        let p = &self.probes;
        let mut v = vec![];
        if p.drain {
            v.push("drain".to_string());
        }
        if p.clone {
            v.push("clone".into());
        }
        if p.reload {
            v.push("reload".into());
        }
        if p.cuts {
            v.push("cuts".into());
        }
        if p.slice {
            v.push("slice".into());
        }
        if p.slice_add {
            v.push("add-on-slices".into());
        }
        if p.exports {
            v.push("exports".into());
        }
        if p.texts {
            v.push("texts".into());
        }
        if !p.lockstep.is_empty() {
            v.push(format!("lockstep{:?}", p.lockstep));
        }
        if p.rerun > 0 {
            v.push(format!("rerun x{}", p.rerun));
        }
        v
    }
}

/// One observation that contradicts some property.
#[derive(Clone, Debug)]
pub struct Finding {
    pub kind: String,
    pub tags: Vec<&'static str>,
    pub detail: String,
    /// a second history the finding refers to (differential oracles)
    pub aux: Option<Vec<Op>>,
}

impl Finding {
    pub fn new(kind: &str, tags: &[&'static str], detail: String) -> Self {
        Self { kind: kind.to_string(), tags: tags.to_vec(), detail, aux: None }
    }
}

#[derive(Clone, Debug)]
pub struct Violation {
    pub prop: String,
    pub cfg: String,
    pub kind: String,
    pub detail: String,
    pub n: usize,
    pub cap: usize,
    pub history: Vec<Op>,
    /// "transition" (the last op of the history is the failing call) or "probe"
    pub at: String,
    pub aux: Option<Vec<Op>>,
}

#[derive(Clone, Debug, Default)]
pub struct HxResult {
    pub cfg: String,
    pub states: u64,
    pub transitions: u64,
    pub depth_completed: usize,
    pub closed: bool,
    pub cap_hit: Option<String>,
    pub diverged_other: u64,
    pub diverged_kinds: BTreeMap<String, u64>,
    pub counters: BTreeMap<String, u64>,
    pub violations: Vec<Violation>,
    pub violation_count: u64,
    pub violation_kinds: BTreeMap<String, u64>,
    pub samples: Vec<String>,
    pub probe_runs: u64,
    pub wall_s: f64,
    pub widest_level: usize,
    pub machinery: Vec<String>,
    pub key_bytes: u64,
}

pub fn encode_snapshot(s: &Snapshot, out: &mut Vec<u8>) {
    put_var(out, s.vertices.len());
    for v in &s.vertices {
        match v {
            None => out.push(0xFE),
            Some(v) => {
                put_var(out, v.branch);
                out.push(v.persistence);
                out.push(u8::from(v.heap));
                // lossless: a big menu datum is written as its (unique) menu index
                match if v.data.len() >= 255 { crate::menu::big_index(&v.data) } else { None } {
                    Some(d) => {
                        put_var(out, usize::MAX);
                        out.push(d);
                    }
                    None => {
                        put_var(out, v.data.len());
                        out.extend_from_slice(&v.data);
                    }
                }
                // the padding of an inline array is part of the state
                if !v.heap {
                    out.extend_from_slice(&v.raw[v.data.len().min(v.raw.len())..]);
                }
                put_var(out, v.edges.len());
                for (l, t) in &v.edges {
                    encode_label(l, out);
                    put_var(out, *t);
                }
            }
        }
    }
    for b in &s.branches {
        match b {
            None => out.push(0xFE),
            Some(m) => {
                put_var(out, m.len());
                for x in m {
                    put_var(out, *x);
                }
            }
        }
    }
    for c in &s.stores {
        match c {
            None => out.push(0xFE),
            Some(c) => put_var(out, *c),
        }
    }
    put_var(out, s.next_v);
}

pub fn encode_label(l: &Label, out: &mut Vec<u8>) {
    match l {
        Label::Greek(c) => {
            out.push(0);
            put_var(out, *c as usize);
        }
        Label::Alpha(n) => {
            out.push(1);
            put_var(out, *n);
        }
        Label::Str(a) => {
            out.push(2);
            for c in a {
                put_var(out, *c as usize);
            }
        }
    }
}

pub fn state_key<const N: usize>(g: &Sodg<N>, m: &Model) -> Box<[u8]> {
    let mut out = Vec::with_capacity(128);
    encode_snapshot(&g.verif_snapshot(), &mut out);
    out.push(0xFD);
    m.encode(&mut out);
    out.into_boxed_slice()
}

struct Cand {
    key: Box<[u8]>,
    parent: u32,
    op: Op,
}

#[derive(Default)]
struct WorkerOut {
    cands: Vec<Cand>,
    transitions: u64,
    probe_runs: u64,
    counters: BTreeMap<&'static str, u64>,
    /// (parent index, op or None for a probe finding, finding)
    findings: Vec<(u32, Option<Op>, Finding)>,
}

fn bump(c: &mut BTreeMap<&'static str, u64>, k: &'static str) {
    *c.entry(k).or_insert(0) += 1;
}

/// Compare the public observables of the real graph with the model.
/// Returns (kind, detail) pairs. `keys0` = the model's alive set before the call.
pub fn compare_obs<const N: usize>(g: &Sodg<N>, m: &Model, labels: &[u8]) -> Vec<(String, String)> {
    let mut out = vec![];
    let keys = match guarded(|| crate::real::keys_sorted(g)) {
        Ok(k) => k,
        Err(e) => {
            out.push(("panic-keys".to_string(), format!("keys() panicked: {e}")));
            return out;
        }
    };
    let mk = m.keys();
    if keys != mk {
        out.push(("alive-mismatch".to_string(), format!("keys()={keys:?} but the model's alive set is {mk:?}")));
    }
    match guarded(|| g.is_empty()) {
        Ok(e) if e == keys.is_empty() => {}
        Ok(e) => out.push(("alive-mismatch".to_string(), format!("is_empty()={e} but keys() has {} entries", keys.len()))),
        Err(e) => out.push(("panic-keys".to_string(), format!("is_empty() panicked: {e}"))),
    }
    match guarded(|| g.len()) {
        Ok(l) if l == keys.len() => {}
        Ok(l) => out.push(("alive-mismatch".to_string(), format!("len()={l} but keys() has {} entries", keys.len()))),
        Err(e) => out.push(("panic-keys".to_string(), format!("len() panicked: {e}"))),
    }
    let ks: BTreeSet<usize> = keys.iter().copied().collect();
    for (v, mv) in &m.present {
        if !ks.contains(v) {
            continue;
        }
        let kids = match guarded(|| kids_of(g, *v)) {
            Ok(k) => k,
            Err(e) => {
                out.push(("panic-kids".to_string(), format!("kids({v}) panicked: {e}")));
                continue;
            }
        };
        let mut got: Vec<(Label, usize)> = kids.clone();
        got.sort_unstable();
        let mut exp: Vec<(Label, usize)> = mv.edges.iter().map(|(l, t)| (lab(*l), *t)).collect();
        exp.sort_unstable();
        if got != exp {
            out.push((
                "edge-mismatch".to_string(),
                format!("kids({v})={} but the model has {}", fmt_edges(&kids), fmt_edges(&exp)),
            ));
        }
        for l in labels {
            let e = mv.edges.iter().find(|(x, _)| x == l).map(|(_, t)| *t);
            match guarded(|| g.kid(*v, lab(*l))) {
                Ok(k) if k == e => {}
                Ok(k) => out.push(("edge-mismatch".to_string(), format!("kid({v},{})={k:?} but the most recent bind says {e:?}", lab_text(*l)))),
                Err(e) => out.push(("panic-kids".to_string(), format!("kid({v},{}) panicked: {e}", lab_text(*l)))),
            }
        }
    }
    out
}

pub fn fmt_edges(e: &[(Label, usize)]) -> String {
    format!("[{}]", e.iter().map(|(l, t)| format!("{l}->{t}")).collect::<Vec<_>>().join(", "))
}

fn has_marker<const N: usize>(g: &Sodg<N>, v: usize) -> Option<bool> {
    guarded(|| g.v_print(v).ok().map(|t| t.contains('Δ'))).ok().flatten()
}

/// Read every vertex (in the given order) on copies of graph and model,
/// comparing return values and the alive set after every read.
pub fn drain_probe<const N: usize>(g: &Sodg<N>, m: &Model, desc: bool) -> Vec<Finding> {
    let mut out = vec![];
    // without an exact copy the probe cannot run (C10 judges clone())
    let Some(mut gc) = exact_copy(g) else { return out };
    let mut mc = m.clone();
    let mut order = m.keys();
    if desc {
        order.reverse();
    }
    let mut reads = vec![];
    for v in order {
        if !mc.present.contains_key(&v) {
            continue;
        }
        let before = mc.keys();
        let r = guarded(|| gc.data(v).map(|h| h.to_vec()));
        let ex = mc.apply(&Op::Data(v));
        reads.push(format!("data({v})"));
        let ctx = format!("drain probe ({}): after reading {}", if desc { "descending" } else { "ascending" }, reads.join(", "));
        match r {
            Err(e) => {
                out.push(Finding::new("drain-panic", &["C02"], format!("{ctx}: data({v}) panicked: {e}")));
                return out;
            }
            Ok(r) => {
                let e = ex.data.unwrap().map(dat_bytes);
                if r != e {
                    out.push(Finding::new("drain-data-mismatch", &["C03"], format!("{ctx}: returned {r:?}, the last put was {e:?}")));
                    return out;
                }
            }
        }
        let keys = guarded(|| crate::real::keys_sorted(&gc)).unwrap_or_default();
        let mk = mc.keys();
        if keys != mk {
            let lost: Vec<usize> = before.iter().filter(|x| !keys.contains(x) && mk.contains(x)).copied().collect();
            if lost.is_empty() {
                out.push(Finding::new("drain-late-collection", &["C02"], format!("{ctx}: keys()={keys:?} but the model's alive set is {mk:?} (a group failed to die, or vertices appeared)")));
            } else {
                out.push(Finding::new("drain-early-collection", &["C01", "C02"], format!("{ctx}: vertices {lost:?} were removed although the model keeps them (keys()={keys:?}, model {mk:?})")));
            }
            return out;
        }
    }
    out
}

/// The observable course of reading every listed vertex once on a copy:
/// per read the returned bytes (or the panic) and the alive set afterwards.
/// None when no exact copy of `g` can be had (then nothing can be said here; C10 judges clone()).
pub fn drain_trace<const N: usize>(g: &Sodg<N>, order: &[usize], desc: bool) -> Option<Vec<String>> {
    Some(drain_trace_owned(exact_copy(g)?, order, desc))
}

/// The same on an object we own (it is consumed): no clone() involved.
pub fn drain_trace_owned<const N: usize>(mut gc: Sodg<N>, order: &[usize], desc: bool) -> Vec<String> {
    drain_trace_mut(&mut gc, order, desc)
}

/// The same on an object that is kept (its state after the reads is what the caller goes on with).
pub fn drain_trace_mut<const N: usize>(gc: &mut Sodg<N>, order: &[usize], desc: bool) -> Vec<String> {
    let mut out = vec![];
    let mut order = order.to_vec();
    if desc {
        order.reverse();
    }
    for v in order {
        let present = guarded(|| crate::real::keys_sorted(gc)).unwrap_or_default();
        if !present.contains(&v) {
            continue;
        }
        // the returned Hex is compared structurally (variant and fields are public API)
        match guarded(|| gc.data(v).map(|h| raw_hex(&h))) {
            Err(e) => {
                out.push(format!("data({v}) panicked: {e}"));
                break;
            }
            Ok(r) => out.push(format!("data({v})={r:?} then keys()={:?}", guarded(|| crate::real::keys_sorted(gc)).unwrap_or_default())),
        }
    }
    out
}

/// variant and fields of a Hex as text
pub fn raw_hex(h: &sodg::Hex) -> String {
    match h {
        sodg::Hex::Vector(v) => format!("Vector({v:?})"),
        sodg::Hex::Bytes(a, l) => format!("Bytes({a:?},{l})"),
    }
}

/// C10: the clone of this state must be an exact copy (complete snapshots equal).
pub fn clone_exactness_finding<const N: usize>(g: &Sodg<N>) -> Option<Finding> {
    match guarded(|| g.clone()) {
        Err(e) => Some(Finding::new("clone-inexact", &["C10"], format!("clone() of this state panicked: {e}"))),
        Ok(c) => {
            let (a, b) = (guarded(|| c.verif_snapshot()).ok()?, guarded(|| g.verif_snapshot()).ok()?);
            if a == b {
                return None;
            }
            let what = if a.next_v != b.next_v {
                format!("the allocator position is {} in the clone and {} in the original", a.next_v, b.next_v)
            } else if a.stores != b.stores {
                format!("the unread counters are {:?} in the clone and {:?} in the original", a.stores, b.stores)
            } else if a.branches != b.branches {
                format!("the member lists are {:?} in the clone and {:?} in the original", a.branches, b.branches)
            } else {
                "a vertex slot differs".to_string()
            };
            Some(Finding::new("clone-inexact", &["C10"], format!("clone() of this state is not an exact copy: {what}")))
        }
    }
}

fn swap_tag(op: &Op) -> Option<&'static str> {
    match op {
        Op::CloneSwap | Op::CloneFromSwap => Some("C10"),
        Op::ReloadSwap => Some("C08"),
        Op::Merge(..) => Some("C11"),
        Op::Script(..) => Some("C14"),
        _ => None,
    }
}

/// Everything the properties say about one call. `m0`/`m1` = model before and
/// after, `g1` = the real graph after the call.
#[allow(clippy::too_many_arguments)]
pub fn check_transition<const N: usize>(
    labels: &[u8],
    m0: &Model,
    g0: Option<&Sodg<N>>,
    op: &Op,
    res: &Result<Ret, String>,
    g1: &Sodg<N>,
    m1: &Model,
    ex: &Expect,
    model_errs: &[String],
) -> Vec<Finding> {
    let mut out = vec![];
    let swap = swap_tag(op);
    // 1. panics of in-limit calls
    if let Err(e) = res {
        let tags: Vec<&'static str> = match op {
            Op::Add(_) => vec!["C02", "C04", "C07"],
            Op::Bind(..) | Op::Put(..) | Op::Data(_) => vec!["C02", "C07"],
            Op::NextId | Op::AddNext => vec!["C05", "C07"],
            Op::CloneSwap | Op::CloneFromSwap => vec!["C10", "C07"],
            Op::ReloadSwap => vec!["C08", "C07"],
            Op::Merge(..) => vec!["C11", "C07"],
            Op::MergeFail(..) => vec!["C12", "C07"],
            Op::Script(..) => vec!["C14", "C07"],
        };
        out.push(Finding { kind: format!("panic-{}", op_name(op)), tags, detail: format!("{} is within the limits but panicked: {e}", op.text()), aux: None });
        return out;
    }
    // 1a. a merge that has to be refused: Err, and nothing that was there may be gone; the model has
    // taken over whatever the left graph holds now, so there is nothing else to compare here
    if let Op::MergeFail(..) = op {
        if let Ok(Ret::Merge(Ok(()))) = res {
            out.push(Finding::new("merge-ok-although-stray-vertex", &["C12"], format!("{} returned Ok although the right graph holds a present vertex that cannot be reached from `right`", op.text())));
            return out;
        }
        for e in model_errs {
            out.push(Finding { kind: "state-after-refused-merge-unreadable".to_string(), tags: vec![], detail: e.clone(), aux: None });
        }
        let keys = guarded(|| crate::real::keys_sorted(g1)).unwrap_or_default();
        let lost: Vec<usize> = m0.keys().into_iter().filter(|v| !keys.contains(v)).collect();
        if !lost.is_empty() {
            out.push(Finding { kind: "early-collection-by-merge".to_string(), tags: vec!["C01", "C02"], detail: format!("{} (refused) removed {lost:?}: only a first read of a datum may remove vertices", op.text()), aux: None });
        }
        return out;
    }
    // 1b. scripts: Ok(number of commands) for the well-formed one, Err for the one with a malformed command
    if let (Op::Script(k, ..), Ok(Ret::Script(r))) = (op, res) {
        match (k % 2, r) {
            (0, Ok(n)) if *n == if *k == 0 { 4 } else { 3 } => {}
            (1..=u8::MAX, Err(_)) => {}
            (0, Ok(n)) => out.push(Finding::new("script-wrong-count", &["C14"], format!("{} returned {n} for {} commands", op.text(), if *k == 0 { 4 } else { 3 }))),
            (0, Err(e)) => {
                out.push(Finding::new("script-well-formed-rejected", &["C14"], format!("{} was rejected: {e}", op.text())));
                return out;
            }
            (_, Ok(n)) => {
                out.push(Finding::new("script-malformed-accepted", &["C14"], format!("{} returned Ok({n}) although its last but one command is malformed", op.text())));
                return out;
            }
        }
    }
    // 2. model-side complaints (next_id freshness, merge structure)
    for e in model_errs {
        let tags: Vec<&'static str> = match op {
            Op::NextId | Op::AddNext => vec!["C05"],
            Op::Script(..) => vec!["C14", "C05"],
            Op::Merge(..) => {
                if e.contains("next_id") || e.contains("already present") || e.contains("capacity") {
                    vec!["C11", "C05"]
                } else {
                    vec!["C11"]
                }
            }
            _ => vec!["C02"],
        };
        out.push(Finding { kind: format!("{}-contract", op_name(op)), tags, detail: e.clone(), aux: None });
    }
    if let Ok(Ret::Merge(Err(e))) = res {
        out.push(Finding::new("merge-err", &["C11"], format!("merge of a tree into a tree returned Err: {e}")));
        return out;
    }
    // 3. return value of data()
    if let (Op::Data(v), Ok(Ret::Data(r))) = (op, res) {
        let e = ex.data.unwrap().map(dat_bytes);
        if *r != e {
            out.push(Finding::new("data-return-mismatch", &["C03"], format!("data({v}) returned {r:?} but the most recent put was {e:?}")));
        }
    }
    // 4. alive set, edges
    let keys0 = m0.keys();
    for (kind, detail) in compare_obs(g1, m1, labels) {
        match kind.as_str() {
            "alive-mismatch" => {
                let keys = guarded(|| crate::real::keys_sorted(g1)).unwrap_or_default();
                let mk = m1.keys();
                let lost: Vec<usize> = keys0.iter().filter(|x| !keys.contains(x) && mk.contains(x)).copied().collect();
                let stuck: Vec<usize> = keys.iter().filter(|x| !mk.contains(x) && keys0.contains(x)).copied().collect();
                if !lost.is_empty() {
                    let why = explain_loss(m0, op, ex, &lost);
                    let tags: Vec<&'static str> = match (swap, op) {
                        (Some("C11"), _) => vec!["C11", "C01"],
                        (Some(t), _) => vec![t],
                        (None, Op::Add(_)) => vec!["C01", "C02", "C04"],
                        _ => vec!["C01", "C02"],
                    };
                    out.push(Finding { kind: format!("early-collection-by-{}", op_name(op)), tags, detail: format!("{} removed {lost:?}: {why}; {detail}", op.text()), aux: None });
                } else if !stuck.is_empty() {
                    let tags: Vec<&'static str> = match swap {
                        Some(t) => vec![t],
                        None => vec!["C02"],
                    };
                    out.push(Finding { kind: "late-collection".to_string(), tags, detail: format!("{} should have removed {stuck:?} (the last unread datum of their group was just read) but they are still present; {detail}", op.text()), aux: None });
                } else {
                    let tags: Vec<&'static str> = match (swap, op) {
                        (Some(t), _) => vec![t],
                        (None, Op::Add(_) | Op::AddNext) => vec!["C04", "C02"],
                        _ => vec!["C02"],
                    };
                    out.push(Finding { kind: format!("alive-mismatch-after-{}", op_name(op)), tags, detail: format!("after {}: {detail}", op.text()), aux: None });
                }
            }
            "edge-mismatch" => {
                let tags: Vec<&'static str> = match (swap, op) {
                    // the vertices merge() creates come from add(): they must be blank (C04)
                    (Some("C11"), _) => vec!["C11", "C04"],
                    (Some(t), _) => vec![t],
                    (None, Op::Add(_) | Op::AddNext) => vec!["C03", "C04"],
                    _ => vec!["C03"],
                };
                out.push(Finding { kind: format!("edge-mismatch-after-{}", op_name(op)), tags, detail: format!("after {}: {detail}", op.text()), aux: None });
            }
            _ => {
                out.push(Finding { kind, tags: vec!["C02", "C07"], detail: format!("after {}: {detail}", op.text()), aux: None });
            }
        }
    }
    // 5. add(): a fresh vertex is blank; a present one is untouched
    if out.is_empty() {
        let added = match (op, res) {
            (Op::Add(v), _) => Some(*v),
            (Op::AddNext, Ok(Ret::Id(id))) => Some(*id),
            _ => None,
        };
        if let Some(v) = added {
            if !m0.present.contains_key(&v) {
                // "data presence (v_print) right after add()": the vertex is present, so v_print must describe it
                if let Ok(Err(e)) = guarded(|| g1.v_print(v).map_err(|e| format!("{e:#}"))) {
                    out.push(Finding::new("add-not-shown-by-v_print", &["C04", "C20"], format!("{} made ν{v} present, but v_print({v}) right afterwards fails: {e}", op.text())));
                }
                if has_marker(g1, v) == Some(true) {
                    out.push(Finding::new("add-not-blank", &["C04", "C03"], format!("{} created ν{v} but v_print shows a data marker: {:?}", op.text(), g1.v_print(v).ok())));
                }
                let r = match exact_copy(g1) {
                    Some(mut c) => guarded(|| c.data(v).map(|h| h.to_vec())),
                    None => Ok(None),
                };
                if !matches!(r, Ok(None)) {
                    out.push(Finding::new("add-not-blank", &["C04", "C03"], format!("{} created ν{v} but data({v}) on a copy gives {r:?} instead of None", op.text())));
                }
                // blank also for the calls that copy a vertex somewhere else: its slice is one vertex
                // without data, and merged into a fresh vertex (when it is the whole graph) it brings nothing
                let r = guarded(|| g1.slice(v).ok().map(|mut s| (crate::real::keys_sorted(&s), kids_of(&s, v).len(), s.data(v).map(|h| h.to_vec()))));
                if !matches!(&r, Ok(Some((k, 0, None))) if *k == vec![v]) {
                    out.push(Finding::new("add-not-blank", &["C04"], format!("{} created ν{v}, but its slice (keys, number of edges, datum) is {r:?} instead of one blank vertex", op.text())));
                }
                if m1.present.len() == 1 {
                    let r = guarded(|| {
                        let mut l: Sodg<N> = Sodg::empty(2);
                        l.add(0);
                        let ok = l.merge(g1, 0, v).is_ok();
                        (ok, kids_of(&l, 0).len(), l.data(0).map(|h| h.to_vec()))
                    });
                    if !matches!(r, Ok((true, 0, None))) {
                        out.push(Finding::new("add-not-blank", &["C04"], format!("{} created ν{v} in an otherwise empty graph, but merging that graph into a fresh vertex gives (Ok?, edges, datum) = {r:?} instead of nothing", op.text())));
                    }
                }
            } else {
                // present before: nothing may change, incl. the moment of collection.
                // Differential oracle: reading everything, in either order, must go
                // exactly as it would have gone without the add().
                if let Some(g0) = g0 {
                    let (before, after) = (guarded(|| g0.v_print(v).ok()).ok().flatten(), guarded(|| g1.v_print(v).ok()).ok().flatten());
                    if before != after {
                        out.push(Finding::new("add-changed-present", &["C04"], format!("{} on a present vertex changed what v_print shows from {before:?} to {after:?}", op.text())));
                    }
                }
                // (reading everything is quadratic in the size of the graph: graphs of up to 300 vertices)
                if let Some(g0) = g0.filter(|_| m0.present.len() <= 300) {
                    for desc in [false, true] {
                        let (Some(before), Some(after)) = (drain_trace(g0, &m0.keys(), desc), drain_trace(g1, &m0.keys(), desc)) else { break };
                        if before != after {
                            let i = before.iter().zip(after.iter()).position(|(a, b)| a != b).unwrap_or(before.len().min(after.len()));
                            out.push(Finding::new(
                                "add-changed-present",
                                &["C04"],
                                format!(
                                    "{} on a present vertex must change nothing, but reading all vertices in {} order then goes differently: without the add: {:?}; with it: {:?}",
                                    op.text(),
                                    if desc { "descending" } else { "ascending" },
                                    before.get(i),
                                    after.get(i)
                                ),
                            ));
                            break;
                        }
                    }
                }
            }
        }
    }
    out
}

fn explain_loss(m0: &Model, op: &Op, ex: &Expect, lost: &[usize]) -> String {
    let mut why = vec![];
    match op {
        Op::Data(v) if ex.first_read => {
            let gv = m0.present.get(v).and_then(|x| x.group);
            for x in lost {
                let mx = &m0.present[x];
                if mx.group.is_none() {
                    why.push(format!("ν{x} was never an endpoint of a bind"));
                } else if mx.group != gv {
                    why.push(format!("ν{x} is not linked to ν{v} through the binds (another group)"));
                } else if mx.unread && x != v {
                    why.push(format!("ν{x} holds a datum that was put and not yet read"));
                } else {
                    let holders: Vec<usize> = m0.present.iter().filter(|(k, y)| y.group == gv && y.unread && *k != v).map(|(k, _)| *k).collect();
                    why.push(format!("the group of ν{v} still holds unread data at {holders:?}"));
                }
            }
        }
        Op::Data(_) => why.push("this data() call does not read a datum for the first time since it was put".to_string()),
        _ => why.push("only a first read of a datum may remove vertices".to_string()),
    }
    why.join("; ")
}

pub fn op_name(op: &Op) -> &'static str {
    match op {
        Op::Add(_) => "add",
        Op::Bind(..) => "bind",
        Op::Put(..) => "put",
        Op::Data(_) => "data",
        Op::NextId => "next_id",
        Op::AddNext => "add_next",
        Op::CloneSwap => "clone",
        Op::CloneFromSwap => "clone_from",
        Op::ReloadSwap => "reload",
        Op::Merge(..) | Op::MergeFail(..) => "merge",
        Op::Script(..) => "script",
    }
}

/// The model takes over the present vertices of the real graph as they are (Op::MergeFail): edges,
/// datum, read status and group tag of every present vertex, from the snapshot hook.
pub fn adopt_real_state<const N: usize>(g: &Sodg<N>, m: &mut Model) -> Result<(), String> {
    let s = guarded(|| g.verif_snapshot())?;
    let mut observed = BTreeMap::new();
    for (id, v) in s.vertices.iter().enumerate() {
        let Some(v) = v else { continue };
        if v.branch == 0 {
            continue;
        }
        let mut edges = vec![];
        for (l, t) in &v.edges {
            let li = (0u8..=60).find(|i| lab(*i) == *l).ok_or_else(|| format!("ν{id} has an edge labelled {l}, which is not in the menu"))?;
            edges.push((li, *t));
        }
        let data = if v.persistence == 0 { None } else { Some((0u8..=255).find(|d| if *d >= crate::menu::BIG_FIRST && *d <= crate::menu::BIG_LAST { crate::menu::big_len(*d) == v.data.len() && dat_bytes(*d) == v.data } else { dat_bytes(*d) == v.data }).ok_or_else(|| format!("ν{id} holds bytes {:?}, which are not in the menu", v.data))?) };
        observed.insert(id, (edges, data, v.persistence == 1, if v.branch >= 2 { Some(v.branch) } else { None }));
    }
    m.adopt_observed(observed);
    Ok(())
}

/// One step of implementation and model together, without judging it (used
/// to re-materialise a state whose transitions were judged when discovered).
pub fn step_nocheck<const N: usize>(g: &mut Sodg<N>, m: &mut Model, op: &Op) -> Result<(), String> {
    let r = step_nocheck_inner(g, m, op);
    // the same read-only questions that were asked when this step was judged: a state is reached
    // through a history in which every call was followed by them (answers cached inside `&self`
    // methods are part of what the next call meets)
    observe(g, m);
    r
}

/// A Rust value may be moved; where a graph lives says nothing about which graph it is. Between the
/// call and the questions about it, ANOTHER graph (same vertices, every edge pointing elsewhere,
/// other data) is swapped into the very place, asked the same questions, and swapped out again: an
/// answer remembered under the address of the object would now be the other graph's. Small graphs only.
pub fn decoy_at_the_same_address<const N: usize>(g: &mut Sodg<N>, m: &Model, labels: &[u8]) {
    if m.cap > 16 || m.present.is_empty() {
        return;
    }
    let keys = m.keys();
    let made = guarded(|| {
        let mut d: Sodg<N> = Sodg::empty(m.cap);
        for v in &keys {
            d.add(*v);
        }
        if keys.len() >= 2 {
            for (i, v) in keys.iter().enumerate() {
                for (j, l) in labels.iter().take(N).enumerate() {
                    // a target the real graph is unlikely to have under this label: rotate by label index
                    let t = keys[(i + 1 + j) % keys.len()];
                    if t != *v {
                        d.bind(*v, t, lab(*l));
                    }
                }
            }
        }
        for v in &keys {
            d.put(*v, &crate::menu::dat(3));
        }
        d
    });
    let Ok(mut d) = made else { return };
    std::mem::swap(g, &mut d);
    // `g` now holds the decoy, at the address the real graph had
    let _ = guarded(|| {
        for v in &keys {
            let _ = kids_of(g, *v).len();
            for l in labels {
                let _ = g.kid(*v, lab(*l));
            }
            let _ = g.v_print(*v).map(|t| t.len());
        }
        let _ = (g.keys().len(), g.len(), g.is_empty());
        // a mutating call on the decoy, of an id the real graph lacks
        if let Some(x) = (0..m.cap).find(|x| !m.present.contains_key(x)) {
            g.add(x);
        }
    });
    std::mem::swap(g, &mut d);
}

/// Which further read-only calls follow every step of a history (bit set from the probes of the
/// running exploration: what a check looks at in every state, it also asks of the very object the
/// next call is made on - a save() before the data() before the next save(), an export before the
/// collection before the next export).
static OBSERVE: std::sync::atomic::AtomicU8 = std::sync::atomic::AtomicU8::new(0);
const OBS_SAVE: u8 = 1;
const OBS_EXPORTS: u8 = 2;
const OBS_TEXTS: u8 = 4;
const OBS_SLICE: u8 = 8;

pub fn set_observe_flags(cfg: &HxCfg) {
    let p = &cfg.probes;
    let mut f = 0;
    if (p.reload || p.cuts || cfg.prop == "C08") && cfg.cap <= 600 {
        f |= OBS_SAVE;
    }
    if p.exports {
        f |= OBS_EXPORTS;
    }
    if p.texts {
        f |= OBS_TEXTS;
    }
    if p.slice {
        f |= OBS_SLICE;
    }
    OBSERVE.store(f, std::sync::atomic::Ordering::Relaxed);
}

/// keys/len/is_empty, kids of every present vertex, kid for every label the model knows there
pub fn observe<const N: usize>(g: &Sodg<N>, m: &Model) {
    let _ = guarded(|| (g.keys().len(), g.len(), g.is_empty()));
    for (v, mv) in &m.present {
        let _ = guarded(|| kids_of(g, *v).len());
        for (l, _) in &mv.edges {
            let _ = guarded(|| g.kid(*v, lab(*l)));
        }
    }
    let f = OBSERVE.load(std::sync::atomic::Ordering::Relaxed);
    if f & OBS_SAVE != 0 {
        // to the path the next save+load goes through
        let _ = guarded(|| g.save(&crate::real::thread_file("reload")).is_ok());
    }
    if f & OBS_EXPORTS != 0 {
        let _ = guarded(|| (g.to_xml().map(|t| t.len()).unwrap_or(0), g.to_dot().len()));
    }
    if f & (OBS_TEXTS | OBS_SLICE) != 0 {
        if let Some(v) = m.present.keys().next() {
            if f & OBS_TEXTS != 0 {
                let _ = guarded(|| (g.inspect(*v).map(|t| t.len()).unwrap_or(0), g.v_print(*v).map(|t| t.len()).unwrap_or(0), format!("{g:?}").len()));
            }
            if f & OBS_SLICE != 0 && m.reachable_present(*v).is_some() {
                let _ = guarded(|| g.slice(*v).map(|s| s.len()).unwrap_or(0));
            }
        }
    }
}

fn step_nocheck_inner<const N: usize>(g: &mut Sodg<N>, m: &mut Model, op: &Op) -> Result<(), String> {
    let res = apply_real(g, op)?;
    let mut errs = vec![];
    match (op, &res) {
        (Op::NextId, Ret::Id(id)) => m.adopt_next(*id, false, &mut errs),
        (Op::AddNext, Ret::Id(id)) => m.adopt_next(*id, true, &mut errs),
        (Op::Merge(k, left), Ret::Merge(Ok(()))) => {
            let gr: &Sodg<N> = g;
            let _ = m.apply_merge(&fixed_tree(*k), *left, &|gl, a| guarded(|| gr.kid(gl, lab(a))).ok().flatten(), &mut errs);
        }
        (Op::MergeFail(..), Ret::Merge(Err(_))) => adopt_real_state(g, m)?,
        (Op::Script(k, a, _), Ret::Script(_)) if *k >= 2 => {
            let id = guarded(|| g.kid(*a, lab(0))).ok().flatten();
            m.apply_var_script(*a, id, &mut errs);
        }
        (Op::NextId | Op::AddNext | Op::Merge(..) | Op::MergeFail(..), _) => return Err(format!("{} did not return what it returned before", op.text())),
        _ => {
            // the model followed this history when it was discovered; if it cannot now, an earlier call
            // of the replay answered differently than the first time
            let applicable = match op {
                Op::Add(_) | Op::CloneSwap | Op::CloneFromSwap | Op::ReloadSwap => true,
                _ => m.enabled(op, 0) || matches!(op, Op::Script(..)),
            };
            if !applicable {
                return Err(format!("{} cannot be applied to the model any more: an earlier call of this history answered differently than when the history was discovered", op.text()));
            }
            m.apply(op);
        }
    }
    if !errs.is_empty() {
        return Err(format!("{}: {}", op.text(), errs.join("; ")));
    }
    Ok(())
}

/// Per-worker cache of the last materialised parent state.
struct Cache<const N: usize> {
    at: Option<(usize, u32)>,
    g: Option<Sodg<N>>,
    m: Model,
}

fn replay_both<const N: usize>(cfg: &HxCfg, hist: &[Op]) -> Result<(Sodg<N>, Model), String> {
    let mut g: Sodg<N> = Sodg::empty(cfg.cap);
    let mut m = Model::new(cfg.cap, cfg.n, cfg.track_returned);
    for op in hist {
        step_nocheck(&mut g, &mut m, op)?;
    }
    Ok((g, m))
}

/// Rebuild the state (level, idx) from the trail: the parent is replayed from
/// `Sodg::empty()` (or taken from the cache), then the last op is applied.
fn materialize<const N: usize>(
    cfg: &HxCfg,
    roots: &[Vec<Op>],
    trail: &[Vec<(u32, Op)>],
    level: usize,
    idx: u32,
    cache: &mut Cache<N>,
) -> Result<(Sodg<N>, Model), String> {
    if level == 0 {
        return replay_both(cfg, &roots[idx as usize]);
    }
    let (p, op) = trail[level][idx as usize];
    if cache.at != Some((level - 1, p)) || cache.g.is_none() {
        let h = history_of(roots, trail, level - 1, p);
        let (g, m) = replay_both::<N>(cfg, &h)?;
        cache.at = Some((level - 1, p));
        cache.g = Some(g);
        cache.m = m;
    }
    // continue on a copy of the cached parent if the copy is exact, else replay everything
    match exact_copy(cache.g.as_ref().unwrap()) {
        Some(mut g) => {
            let mut m = cache.m.clone();
            step_nocheck(&mut g, &mut m, &op)?;
            Ok((g, m))
        }
        None => replay_both::<N>(cfg, &history_of(roots, trail, level, idx)),
    }
}

/// Apply `op` to (g, m): the single place where model and implementation
/// take one step together. Returns the findings of that step.
pub fn step<const N: usize>(labels: &[u8], g: &mut Sodg<N>, m: &mut Model, op: &Op) -> (Result<Ret, String>, Vec<Finding>) {
    let m0 = m.clone();
    // add() on a present vertex is judged against the graph before the call
    let g0 = match op {
        Op::Add(v) if m0.present.contains_key(v) => exact_copy(g),
        _ => None,
    };
    let res = apply_real(g, op);
    let mut errs = vec![];
    let mut ex = Expect::default();
    match (op, &res) {
        (Op::NextId, Ok(Ret::Id(id))) => m.adopt_next(*id, false, &mut errs),
        (Op::AddNext, Ok(Ret::Id(id))) => m.adopt_next(*id, true, &mut errs),
        (Op::Merge(k, left), Ok(Ret::Merge(Ok(())))) => {
            let gr: &Sodg<N> = g;
            let _ = m.apply_merge(&fixed_tree(*k), *left, &|gl, a| guarded(|| gr.kid(gl, lab(a))).ok().flatten(), &mut errs);
        }
        (Op::MergeFail(..), Ok(Ret::Merge(Err(_)))) => {
            if let Err(e) = adopt_real_state(g, m) {
                errs.push(format!("cannot take over the state after the refused merge: {e}"));
            }
        }
        (Op::Script(k, a, _), Ok(Ret::Script(_))) if *k >= 2 => {
            let id = guarded(|| g.kid(*a, lab(0))).ok().flatten();
            m.apply_var_script(*a, id, &mut errs);
        }
        (Op::NextId | Op::AddNext | Op::Merge(..) | Op::MergeFail(..), _) => {}
        (_, Ok(_)) => ex = m.apply(op),
        (_, Err(_)) => {}
    }
    decoy_at_the_same_address(g, m, labels);
    let f = check_transition(labels, &m0, g0.as_ref(), op, &res, g, m, &ex, &errs);
    if f.is_empty() {
        observe(g, m);
    }
    (res, f)
}

fn count_transition(c: &mut BTreeMap<&'static str, u64>, m0: &Model, op: &Op, ex: &Expect) {
    match op {
        Op::Add(v) => {
            if m0.present.contains_key(v) {
                if m0.present[v].group.is_some() {
                    bump(c, "add_of_grouped_present_vertex");
                } else {
                    bump(c, "add_of_ungrouped_present_vertex");
                }
            } else if let Some((had_edges, had_data)) = m0.graves.get(v) {
                bump(c, "readd_of_collected_id");
                if *had_edges {
                    bump(c, "readd_of_collected_id_that_had_edges");
                }
                if *had_data {
                    bump(c, "readd_of_collected_id_that_had_data");
                }
            }
        }
        Op::Bind(a, b, l) => {
            let (va, vb) = (&m0.present[a], &m0.present[b]);
            match (va.group, vb.group) {
                (None, None) => bump(c, "bind_forms_group"),
                (Some(_), None) | (None, Some(_)) => bump(c, "bind_joins_group"),
                (Some(x), Some(y)) if x != y => bump(c, "bind_across_groups"),
                _ => bump(c, "bind_within_group"),
            }
            if (va.group.is_none() && va.unread) || (vb.group.is_none() && vb.unread) {
                bump(c, "put_before_bind_carried");
            }
            if va.edges.iter().any(|(x, _)| x == l) {
                bump(c, "rebind_existing_label");
                if va.edges.len() == m0.n {
                    bump(c, "rebind_at_full_edge_capacity");
                }
            }
        }
        Op::Put(v, _) => {
            let mv = &m0.present[v];
            if mv.unread {
                bump(c, "overwrite_of_unread_datum");
            } else if mv.data.is_some() {
                bump(c, "reput_after_read");
            }
            if mv.group.is_none() {
                bump(c, "put_on_ungrouped");
            }
        }
        Op::Data(v) => {
            let mv = &m0.present[v];
            if mv.group.is_none() && mv.unread {
                bump(c, "first_read_on_ungrouped");
            }
            if mv.data.is_some() && !mv.unread {
                bump(c, "repeated_read");
            }
            if mv.data.is_none() {
                bump(c, "empty_read");
            }
            if !ex.removed.is_empty() {
                bump(c, "model_collections");
                match ex.removed.len() {
                    2 => bump(c, "collections_of_size_2"),
                    3 => bump(c, "collections_of_size_3"),
                    _ => bump(c, "collections_of_size_4plus"),
                }
                if m0.present.len() > ex.removed.len() {
                    bump(c, "collections_with_survivors");
                }
            } else if ex.first_read && mv.group.is_some() {
                bump(c, "first_read_group_survives");
            }
        }
        Op::NextId => bump(c, "next_id_calls"),
        Op::AddNext => bump(c, "add_next_calls"),
        Op::CloneSwap => bump(c, "clone_swaps"),
        Op::CloneFromSwap => bump(c, "clone_from_swaps"),
        Op::ReloadSwap => {
            bump(c, "reload_swaps");
            if m0.present.values().any(|x| x.unread && x.group.is_some()) {
                bump(c, "reload_with_unread_in_group");
            }
            if m0.present.values().any(|x| x.data.is_some() && !x.unread) {
                bump(c, "reload_with_taken_data");
            }
            if m0.groups_alive() >= 2 {
                bump(c, "reload_with_2plus_groups");
            }
            if m0.pos > 0 {
                bump(c, "reload_with_nonzero_allocator");
            }
        }
        Op::Merge(..) => bump(c, "merges"),
        Op::MergeFail(..) => bump(c, "refused_merges"),
        Op::Script(0, ..) => bump(c, "scripts_deployed"),
        Op::Script(1, ..) => bump(c, "scripts_failing_after_four_commands"),
        Op::Script(2, ..) => bump(c, "scripts_with_a_variable_deployed"),
        Op::Script(..) => bump(c, "scripts_with_a_variable_failing_after_three_commands"),
    }
}

/// Did a collection happen in this history (replayed on the model only)?
/// Used to attribute slot-recycling failures to C06.
pub fn collections_before_last(cfg: &HxCfg, hist: &[Op]) -> usize {
    // The model cannot replay NextId/Merge without the implementation; a
    // conservative count: Data ops that the model (fed with add/bind/put/data
    // only) says collect. Histories with AddNext/Merge are replayed on the real
    // object to learn the ids.
    let mut n = 0;
    crate::with_n!(cfg.n, N, {
        let mut g: Sodg<N> = Sodg::empty(cfg.cap);
        let mut m = Model::new(cfg.cap, cfg.n, false);
        for op in &hist[..hist.len().saturating_sub(1)] {
            let before = m.present.len();
            let (res, _) = step(&cfg.labels, &mut g, &mut m, op);
            if res.is_err() {
                break;
            }
            if matches!(op, Op::Data(_)) && m.present.len() < before {
                n += 1;
            }
        }
    });
    n
}

pub fn run(cfg: &HxCfg) -> HxResult {
    crate::with_n!(cfg.n, N, { run_n::<N>(cfg) })
}

fn history_of(roots: &[Vec<Op>], trail: &[Vec<(u32, Op)>], level: usize, idx: u32) -> Vec<Op> {
    let mut ops = vec![];
    let mut l = level;
    let mut i = idx;
    while l > 0 {
        let (p, op) = trail[l][i as usize];
        ops.push(op);
        i = p;
        l -= 1;
    }
    ops.reverse();
    let mut h = roots[i as usize].clone();
    h.extend(ops);
    h
}

#[allow(clippy::too_many_lines)]
fn run_n<const N: usize>(cfg: &HxCfg) -> HxResult {
    let t0 = Instant::now();
    crate::inflight::start_watchdog();
    set_observe_flags(cfg);
    let ops = cfg.ops();
    let mut res = HxResult { cfg: cfg.describe(), ..Default::default() };
    let mut seen: FxHashSet<Box<[u8]>> = FxHashSet::default();
    let mut roots: Vec<Vec<Op>> = vec![];
    let mut trail: Vec<Vec<(u32, Op)>> = vec![vec![]];
    let mut machinery: Vec<String> = vec![];
    // initial states: the empty graph and the seeds (built through the public API)
    let mut inits: Vec<(String, Vec<Op>)> = vec![("empty".to_string(), vec![])];
    inits.extend(cfg.seeds.iter().cloned());
    for (name, hist) in &inits {
        let mut g: Sodg<N> = Sodg::empty(cfg.cap);
        let mut m = Model::new(cfg.cap, cfg.n, cfg.track_returned);
        let mut ok = true;
        for (i, op) in hist.iter().enumerate() {
            let impl_pos = g.verif_snapshot().next_v;
            assert!(m.enabled(op, impl_pos), "seed {name}: op {i} {} is not enabled", op.text());
            let (_, f) = step(&cfg.labels, &mut g, &mut m, op);
            if !f.is_empty() {
                // a seed that already diverges: report and do not explore from it
                for x in f {
                    record(cfg, &mut res, &hist[..=i], Some(*op), x);
                }
                ok = false;
                break;
            }
        }
        if !ok {
            continue;
        }
        let key = state_key(&g, &m);
        if seen.insert(key) {
            trail[0].push((0, Op::NextId)); // placeholder: level 0 histories live in `roots`
            roots.push(hist.clone());
        }
    }
    res.states = trail[0].len() as u64;
    let mut depth = 0usize;
    loop {
        let expand = depth < cfg.max_depth;
        let width = trail[depth].len();
        if width == 0 {
            res.closed = true;
            break;
        }
        if t0.elapsed() > cfg.wall {
            res.cap_hit = Some(format!("wall-clock cap {:?} reached before level {} was expanded", cfg.wall, depth));
            break;
        }
        if seen.len() > cfg.max_states {
            res.cap_hit = Some(format!("state cap {} reached before level {} was expanded", cfg.max_states, depth));
            break;
        }
        res.widest_level = res.widest_level.max(width);
        // expand the frontier in parallel, chunk by chunk, deterministically merged
        let nthreads = cfg.threads.max(1);
        let chunk = width.div_ceil(nthreads * 8).max(1);
        let nchunks = width.div_ceil(chunk);
        let next_chunk = std::sync::atomic::AtomicUsize::new(0);
        let stop = std::sync::atomic::AtomicBool::new(false);
        let deadline = t0 + cfg.wall;
        let outs: Vec<std::sync::Mutex<Option<WorkerOut>>> = (0..nchunks).map(|_| std::sync::Mutex::new(None)).collect();
        let seen_ref = &seen;
        let ops_ref = &ops;
        let roots_ref = &roots;
        let trail_ref = &trail;
        let errors: std::sync::Mutex<Vec<String>> = std::sync::Mutex::new(vec![]);
        let workers_done = std::sync::atomic::AtomicUsize::new(0);
        let nworkers = nthreads.min(nchunks);
        // states new in this level; `seen` (all earlier levels) stays read-only while workers consult it
        let mut seen_new: FxHashSet<Box<[u8]>> = FxHashSet::default();
        let mut next_trail: Vec<(u32, Op)> = vec![];
        std::thread::scope(|s| {
            for _ in 0..nworkers {
                s.spawn(|| {
                    crate::real::install_panic_hook();
                    // counted as done even if this worker dies of a harness panic (the merging
                    // thread must not wait for it; the panic then ends the process with status 101)
                    struct Done<'a>(&'a std::sync::atomic::AtomicUsize);
                    impl Drop for Done<'_> {
                        fn drop(&mut self) {
                            self.0.fetch_add(1, std::sync::atomic::Ordering::SeqCst);
                        }
                    }
                    let _done = Done(&workers_done);
                    let mut cache: Cache<N> = Cache { at: None, g: None, m: Model::default() };
                    loop {
                        let ci = next_chunk.fetch_add(1, std::sync::atomic::Ordering::Relaxed);
                        if ci >= nchunks {
                            break;
                        }
                        let mut out = WorkerOut::default();
                        let lo = ci * chunk;
                        let hi = (lo + chunk).min(width);
                        for i in lo..hi {
                            if (i - lo) % 64 == 0 && (stop.load(std::sync::atomic::Ordering::Relaxed) || Instant::now() > deadline) {
                                stop.store(true, std::sync::atomic::Ordering::Relaxed);
                                break;
                            }
                            let idx = i as u32;
                            match materialize::<N>(cfg, roots_ref, trail_ref, depth, idx, &mut cache) {
                                Ok((g0, m0)) => expand_state(cfg, ops_ref, seen_ref, &g0, &m0, idx, expand, (roots_ref, trail_ref, depth), &mut out),
                                // the same calls, made again on a fresh graph in this process, went another way than
                                // when the state was discovered: a function of the history alone cannot do that
                                Err(e) => out.findings.push((idx, None, Finding { kind: "history-does-not-repeat".to_string(), tags: vec![cfg.prop, "C19"], detail: format!("when this history was executed once more on a fresh graph (to continue from the state it leads to) it did not go the way it went when it was discovered: {e}. The answers depend on something outside the graph's own history (state shared between objects through the thread, the process or an address)"), aux: None })),
                            }
                        }
                        *outs[ci].lock().unwrap() = Some(out);
                    }
                    crate::inflight::idle();
                });
            }
            // ordered, streaming merge by this thread while the workers run ahead: chunk results
            // are folded in as soon as they are the next in frontier order (bounded memory, and
            // the outcome does not depend on thread timing)
            for slot in &outs {
                let o = loop {
                    if let Some(o) = slot.lock().unwrap().take() {
                        break Some(o);
                    }
                    if workers_done.load(std::sync::atomic::Ordering::SeqCst) == nworkers {
                        break slot.lock().unwrap().take();
                    }
                    std::thread::sleep(Duration::from_micros(200));
                };
                let Some(o) = o else { continue };
                res.transitions += o.transitions;
                res.probe_runs += o.probe_runs;
                for (k, v) in o.counters {
                    *res.counters.entry(k.to_string()).or_insert(0) += v;
                }
                for (parent, op, f) in o.findings {
                    let mut h = history_of(&roots, &trail, depth, parent);
                    if let Some(op) = op {
                        h.push(op);
                    }
                    record(cfg, &mut res, &h, op, f);
                }
                for c in o.cands {
                    let kl = c.key.len();
                    if seen_new.insert(c.key) {
                        res.key_bytes += kl as u64;
                        next_trail.push((c.parent, c.op));
                    }
                }
            }
        });
        machinery.extend(errors.into_inner().unwrap().into_iter().take(3));
        let aborted = stop.load(std::sync::atomic::Ordering::Relaxed);
        seen.extend(seen_new);
        if aborted {
            res.cap_hit = Some(format!("wall-clock cap {:?} reached while level {} was being expanded (that level is not counted as completed)", cfg.wall, depth));
            break;
        }
        if !machinery.is_empty() {
            break;
        }
        if !expand {
            break;
        }
        res.depth_completed = depth + 1;
        res.states += next_trail.len() as u64;
        let grew = !next_trail.is_empty();
        trail.push(next_trail);
        // samples: the first history of the first levels, the deepest at the end
        if grew && res.samples.len() < 6 {
            let h = history_of(&roots, &trail, depth + 1, 0);
            res.samples.push(hist_text(&h));
        }
        depth += 1;
        if !res.violations.is_empty() && res.violation_count > 200 {
            res.cap_hit = Some("stopped after more than 200 violations".to_string());
            break;
        }
        if res.violation_count == 0 && res.diverged_other > 2000 {
            // on such a tree the state graph usually does not close (counters drift without bound)
            res.cap_hit = Some(format!("stopped: the implementation diverges from the reference model in {} places that other properties judge; exploring further says nothing about this property", res.diverged_other));
            break;
        }
    }
    res.machinery = machinery;
    // deepest history as a sample
    if let Some(last) = trail.iter().rposition(|l| !l.is_empty()) {
        if last > 0 {
            let h = history_of(&roots, &trail, last, (trail[last].len() - 1) as u32);
            res.samples.push(format!("(deepest, {} calls) {}", h.len(), hist_text(&h)));
        }
    }
    res.wall_s = t0.elapsed().as_secs_f64();
    res
}

/// Does the history (replayed from scratch) follow the model at every step? Steps the model does not
/// enable (e.g. next_id after the allocator went another way) make the answer "no".
pub fn history_follows_model(cfg: &HxCfg, hist: &[Op]) -> bool {
    crate::with_n!(cfg.n, N, {
        let mut g: Sodg<N> = Sodg::empty(cfg.cap);
        let mut m = Model::new(cfg.cap, cfg.n, cfg.track_returned);
        for op in hist {
            let pos = g.verif_snapshot().next_v;
            if !m.enabled(op, pos) {
                return false;
            }
            let (_, fs) = step(&cfg.labels, &mut g, &mut m, op);
            if !fs.is_empty() {
                return false;
            }
        }
        true
    })
}

fn record(cfg: &HxCfg, res: &mut HxResult, hist: &[Op], op: Option<Op>, f: Finding) {
    let mut mine = f.tags.contains(&cfg.prop);
    // slot recycling (C06): a GC failure after at least one earlier collection
    // C06: a group that was formed but can never be collected, or a bind of two ungrouped vertices
    // that fails although fewer than 14 groups are alive, whenever it happens; any other GC
    // failure only after at least one earlier collection (slot recycling)
    if !mine && cfg.prop == "C06" {
        if f.kind.contains("late-collection") || f.kind.starts_with("panic-bind") {
            mine = true;
        } else if f.kind.contains("collection") || f.kind.starts_with("alive-mismatch") {
            mine = collections_before_last(cfg, hist) > 0;
        }
    }
    // C08 / C10: "behaves identically under any subsequent sequence of calls". A divergence from
    // the model in a history that went through a reload (clone) is blamed on the reload (clone) if
    // the same history WITHOUT those swaps follows the model all the way - a differential oracle.
    let mut f = f;
    if !mine && (cfg.prop == "C08" || cfg.prop == "C10") && op.is_some() {
        let is_swap = |o: &Op| if cfg.prop == "C08" { matches!(o, Op::ReloadSwap) } else { matches!(o, Op::CloneSwap | Op::CloneFromSwap) };
        if hist.iter().any(is_swap) && !f.kind.starts_with("clone-") && !f.kind.starts_with("reload-") {
            let stripped: Vec<Op> = hist.iter().copied().filter(|o| !is_swap(o)).collect();
            if history_follows_model(cfg, &stripped) {
                mine = true;
                f.detail = format!("{} - while the same calls without the {} follow the reference model all the way", f.detail, if cfg.prop == "C08" { "save+load" } else { "clone()" });
                f.kind = format!("continuation-differs-after-{}", if cfg.prop == "C08" { "reload" } else { "clone" });
            }
        }
    }
    if mine {
        res.violation_count += 1;
        *res.violation_kinds.entry(f.kind.clone()).or_insert(0) += 1;
        // keep the first (shortest: BFS order) violation of each kind
        if !res.violations.iter().any(|v| v.kind == f.kind) && res.violations.len() < 12 {
            res.violations.push(Violation {
                prop: cfg.prop.to_string(),
                cfg: cfg.describe(),
                kind: f.kind,
                detail: f.detail,
                n: cfg.n,
                cap: cfg.cap,
                history: hist.to_vec(),
                at: if op.is_some() { "transition".to_string() } else { "probe".to_string() },
                aux: f.aux,
            });
        }
    } else {
        res.diverged_other += 1;
        *res.diverged_kinds.entry(format!("{} [{}]", f.kind, f.tags.join(","))).or_insert(0) += 1;
    }
}

#[allow(clippy::too_many_arguments)]
fn expand_state<const N: usize>(
    cfg: &HxCfg,
    ops: &[Op],
    seen: &FxHashSet<Box<[u8]>>,
    g0: &Sodg<N>,
    m0: &Model,
    idx: u32,
    expand: bool,
    hist_ctx: (&Vec<Vec<Op>>, &Vec<Vec<(u32, Op)>>, usize),
    out: &mut WorkerOut,
) {
    crate::inflight::begin_case(|| {
        let h = history_of(hist_ctx.0, hist_ctx.1, hist_ctx.2, idx);
        crate::report::hx_case_json(cfg, &h, "probe", "crash-or-hang", "the engine did not survive this state: a probe or a transition from it crashed the process or did not return", None)
    });
    // every 8th state is probed and expanded right after failing calls on unrelated objects
    if crate::dirty::maybe(idx as usize, 8) {
        bump(&mut out.counters, "states_expanded_right_after_failing_calls_on_unrelated_objects");
    }
    // probes on the state itself
    {
        let hist = || history_of(hist_ctx.0, hist_ctx.1, hist_ctx.2, idx);
        let mut fs = vec![];
        if cfg.probes.drain {
            out.probe_runs += 2;
            fs.extend(drain_probe(g0, m0, false));
            if fs.is_empty() {
                fs.extend(drain_probe(g0, m0, true));
            }
        }
        probes::run_all::<N>(cfg, g0, m0, &hist, &mut fs, &mut out.probe_runs, &mut out.counters);
        for f in fs {
            out.findings.push((idx, None, f));
        }
        if m0.groups_alive() >= 2 {
            bump(&mut out.counters, "states_with_2plus_groups_alive");
        }
        if m0.present.values().any(|x| x.group.is_none()) && m0.groups_alive() >= 1 {
            bump(&mut out.counters, "states_with_group_and_ungrouped_bystander");
        }
    }
    if !expand {
        return;
    }
    let impl_pos = g0.verif_snapshot().next_v;
    let mut clone_reported = false;
    for op in ops {
        if !m0.enabled(op, impl_pos) {
            continue;
        }
        out.transitions += 1;
        // successors are made from an exact copy; where clone() is not exact the state is
        // rebuilt from scratch instead, so that only C10 depends on clone()
        // save+load (clone) of THE object the history was made on - not of a copy of it: whatever a
        // `&self` call like save() remembers inside the object is there when the next one comes
        let same_object = match op {
            Op::ReloadSwap => cfg.prop == "C08" || cfg.prop == "C09",
            Op::CloneSwap | Op::CloneFromSwap => cfg.prop == "C10",
            _ => false,
        };
        let from_scratch = if same_object { replay_both::<N>(cfg, &history_of(hist_ctx.0, hist_ctx.1, hist_ctx.2, idx)).ok().map(|(g, _)| g) } else { None };
        let mut g1 = match from_scratch.or_else(|| exact_copy(g0)) {
            Some(g) => g,
            None => {
                if !clone_reported {
                    clone_reported = true;
                    // a diagnostic, not a verdict: C10 is judged behaviourally by the clone probe
                    bump(&mut out.counters, "diagnostic_states_whose_clone_has_a_different_snapshot");
                }
                match replay_both::<N>(cfg, &history_of(hist_ctx.0, hist_ctx.1, hist_ctx.2, idx)) {
                    Ok((g, _)) => g,
                    Err(_) => return,
                }
            }
        };
        let mut m1 = m0.clone();
        // counters from the model side
        let ex_preview = match op {
            Op::Data(_) => m0.clone().apply(op),
            _ => Expect::default(),
        };
        count_transition(&mut out.counters, m0, op, &ex_preview);
        let (_, fs) = step(&cfg.labels, &mut g1, &mut m1, op);
        if !fs.is_empty() {
            for f in fs {
                out.findings.push((idx, Some(*op), f));
            }
            // C19: a call the model cannot follow is still compared across configurations
            // (a panic under one N and not under another is a configuration-dependent answer)
            if !cfg.probes.lockstep.is_empty() || cfg.probes.rerun > 0 {
                let mut h = history_of(hist_ctx.0, hist_ctx.1, hist_ctx.2, idx);
                h.push(*op);
                let mut lf = vec![];
                probes::lockstep_probe::<N>(cfg, &|| h.clone(), &mut lf, &mut out.counters);
                for f in lf {
                    out.findings.push((idx, Some(*op), f));
                }
            }
            continue; // model and implementation disagree: do not expand
        }
        let key = state_key(&g1, &m1);
        if seen.contains(&key) {
            continue;
        }
        out.cands.push(Cand { key, parent: idx, op: *op });
    }
}
