//! Evidence files, replay files, known findings, exit codes.

use crate::hx::{HxResult, Violation};
use crate::model::{hist_text, Op};
use serde_json::{json, Value};
use std::path::{Path, PathBuf};

pub fn verif_root() -> PathBuf {
    // harness/ lives directly under /verif
    let p = PathBuf::from(env!("CARGO_MANIFEST_DIR")).join("..");
    p.canonicalize().unwrap_or(p)
}

/// One line of KNOWN_FINDINGS.txt
#[derive(Clone, Debug)]
pub struct Known {
    pub prop: String,
    pub signature: String,
    pub text: String,
}

/// `known: property=<id> signature=<sig> :: <what fails>`; `fixed:` lines suppress nothing.
pub fn load_known() -> Vec<Known> {
    let p = verif_root().join("KNOWN_FINDINGS.txt");
    let Ok(txt) = std::fs::read_to_string(p) else { return vec![] };
    let mut out = vec![];
    for line in txt.lines() {
        let line = line.trim();
        if let Some(rest) = line.strip_prefix("known:") {
            let mut prop = String::new();
            let mut sig = String::new();
            let (head, text) = rest.split_once("::").unwrap_or((rest, ""));
            for tok in head.split_whitespace() {
                if let Some(p) = tok.strip_prefix("property=") {
                    prop = p.to_string();
                }
                if let Some(s) = tok.strip_prefix("signature=") {
                    sig = s.to_string();
                }
            }
            if !prop.is_empty() && !sig.is_empty() {
                out.push(Known { prop, signature: sig, text: text.trim().to_string() });
            }
        }
    }
    out
}

/// A generic failing case of any engine.
#[derive(Clone, Debug, serde::Serialize, serde::Deserialize)]
pub struct Failure {
    pub prop: String,
    /// class of the failure; matched against KNOWN_FINDINGS signatures
    pub signature: String,
    pub summary: String,
    /// everything needed to re-run the case without the explorer
    pub replay: Value,
}

/// The replay object of an HX case.
pub fn hx_case_json(cfg: &crate::hx::HxCfg, history: &[Op], at: &str, kind: &str, detail: &str, aux: Option<&Vec<Op>>) -> Value {
    let probes = &cfg.probes;
    json!({
        "engine": "hx",
        "property": cfg.prop,
        "n": cfg.n,
        "cap": cfg.cap,
        "ids": cfg.ids,
        "labels": cfg.labels,
        "data": cfg.data,
        "track_returned": cfg.track_returned,
        "history": history,
        "history_text": hist_text(history),
        "aux_history": aux,
        "at": at,
        "kind": kind,
        "detail": detail,
        "config": cfg.describe(),
        "ops": {"next_id": cfg.next_id, "add_next": cfg.add_next, "clone_swap": cfg.clone_swap, "clone_from_swap": cfg.clone_from_swap, "reload_swap": cfg.reload_swap, "merges": cfg.merges, "merge_fails": cfg.merge_fails, "scripts": cfg.scripts},
        "probes": {
            "drain": probes.drain, "clone": probes.clone, "reload": probes.reload, "cuts": probes.cuts,
            "slice": probes.slice, "slice_add": probes.slice_add, "exports": probes.exports, "texts": probes.texts,
            "lockstep": probes.lockstep, "rerun": probes.rerun,
        },
    })
}

pub fn hx_failure(cfg: &crate::hx::HxCfg, v: &Violation) -> Failure {
    Failure {
        prop: v.prop.clone(),
        signature: format!("hx:{}", v.kind),
        summary: format!("[{}] after `{}`: {}", v.kind, hist_text(&v.history), v.detail),
        replay: hx_case_json(cfg, &v.history, &v.at, &v.kind, &v.detail, v.aux.as_ref()),
    }
}

pub struct Outcome {
    pub prop: String,
    pub tier: String,
    pub level: String,
    pub coverage: Value,
    pub assumptions: Vec<String>,
    pub failures: Vec<Failure>,
    pub failure_total: u64,
    pub wall_s: f64,
    /// machinery trouble (vacuous run, non-reproducing failure): exit 2
    pub machinery: Vec<String>,
}

pub fn seed() -> i64 {
    std::env::var("VERIF_SEED").ok().and_then(|s| s.parse().ok()).unwrap_or(0)
}

/// Write evidence + replay files, print the verdict lines, return the exit code.
pub fn finish(o: Outcome) -> i32 {
    let root = verif_root();
    let known = load_known();
    let mut violations: Vec<(&Failure, PathBuf)> = vec![];
    let mut known_hits: Vec<(&Failure, &Known)> = vec![];
    let rdir = root.join("replays").join(&o.prop);
    let _ = std::fs::remove_dir_all(&rdir);
    for (i, f) in o.failures.iter().enumerate() {
        if let Some(k) = known.iter().find(|k| k.prop == f.prop && k.signature == f.signature) {
            known_hits.push((f, k));
            continue;
        }
        std::fs::create_dir_all(&rdir).ok();
        let p = rdir.join(format!("{:02}-{}.json", i, sanitize(&f.signature)));
        let mut r = f.replay.clone();
        if let Value::Object(m) = &mut r {
            m.insert("signature".into(), json!(f.signature));
            m.insert("summary".into(), json!(f.summary));
        }
        std::fs::write(&p, serde_json::to_string_pretty(&r).unwrap()).expect("write replay file");
        violations.push((f, p));
    }
    let mut cov = o.coverage.clone();
    if let Value::Object(m) = &mut cov {
        m.insert("known_findings_matched".into(), json!(known_hits.iter().map(|(f, k)| json!({"signature": k.signature, "case": f.summary})).collect::<Vec<_>>()));
    }
    let ev = json!({
        "property_id": o.prop,
        "tier": o.tier,
        "seed": seed(),
        "level": o.level,
        "coverage": cov,
        "assumptions": o.assumptions,
        "wall_s": (o.wall_s * 100.0).round() / 100.0,
        "violations": violations.len(),
    });
    let edir = root.join("evidence");
    std::fs::create_dir_all(&edir).ok();
    std::fs::write(edir.join(format!("{}.json", o.prop)), serde_json::to_string_pretty(&ev).unwrap() + "\n").expect("write evidence");
    let mut seen_known = std::collections::BTreeSet::new();
    for (f, k) in &known_hits {
        if seen_known.insert(k.signature.clone()) {
            println!("KNOWN-FINDING: property={} {} (e.g. {})", k.prop, k.text, f.summary);
        }
    }
    if !o.machinery.is_empty() && violations.is_empty() {
        for m in &o.machinery {
            println!("MACHINERY-ERROR property={}: {m}", o.prop);
        }
        return 2;
    }
    // violations that stand on their own are reported even if the machinery also had trouble somewhere else
    for m in &o.machinery {
        println!("NOTE (machinery trouble elsewhere in this run) property={}: {m}", o.prop);
    }
    if violations.is_empty() {
        println!("OK property={} tier={} ({:.1}s)", o.prop, o.tier, o.wall_s);
        0
    } else {
        for (f, p) in &violations {
            println!("VIOLATION property={} replay={}", f.prop, p.display());
            println!("  {}", f.summary);
        }
        if o.failure_total as usize > o.failures.len() {
            println!("  ({} failing cases in total; one replay file per kind)", o.failure_total);
        }
        1
    }
}

fn sanitize(s: &str) -> String {
    s.chars().map(|c| if c.is_ascii_alphanumeric() || c == '-' { c } else { '_' }).collect::<String>().chars().take(60).collect()
}

/// Fold several HX runs into the model_checking coverage object.
pub fn hx_coverage(runs: &[HxResult], extra: Value) -> Value {
    let states: u64 = runs.iter().map(|r| r.states).sum();
    let transitions: u64 = runs.iter().map(|r| r.transitions).sum();
    let mut samples: Vec<String> = vec![];
    for r in runs {
        for s in r.samples.iter().take(3) {
            samples.push(s.clone());
        }
        if let Some(l) = r.samples.last() {
            if !samples.contains(l) {
                samples.push(l.clone());
            }
        }
    }
    let mut counters: std::collections::BTreeMap<String, u64> = Default::default();
    for r in runs {
        for (k, v) in &r.counters {
            *counters.entry(k.clone()).or_insert(0) += v;
        }
    }
    let per_run: Vec<Value> = runs
        .iter()
        .map(|r| {
            json!({
                "config": r.cfg, "states": r.states, "transitions": r.transitions,
                "depth_completed": r.depth_completed, "closed": r.closed, "cap_hit": r.cap_hit,
                "widest_level": r.widest_level, "probe_runs": r.probe_runs,
                "diverged_not_this_property": r.diverged_other, "diverged_kinds": r.diverged_kinds,
                "violations": r.violation_count, "violation_kinds": r.violation_kinds, "wall_s": (r.wall_s*100.0).round()/100.0,
            })
        })
        .collect();
    let mut cov = json!({
        "states": states,
        "transitions": transitions,
        "traces_validated_against_impl": transitions,
        "samples": samples,
        "exhaustive": runs.iter().all(|r| r.closed),
        "closed_runs": runs.iter().filter(|r| r.closed).count(),
        "runs": per_run,
        "non_vacuity_counters": counters,
        "explanation": "explicit-state BFS of the product (real Sodg x reference model); the transition function is the real code, every transition is executed on the real object and all observables are compared with the model in the same step (= traces_validated_against_impl); states deduplicated on the complete internal snapshot + model state (lossless keys); 'closed' = a level added no new state, so the verdict covers histories of any length over that alphabet; other runs are bounded by the stated depth",
    });
    if let (Value::Object(a), Value::Object(b)) = (&mut cov, extra) {
        for (k, v) in b {
            a.insert(k, v);
        }
    }
    cov
}

pub fn write_json(path: &Path, v: &Value) {
    std::fs::write(path, serde_json::to_string_pretty(v).unwrap()).expect("write json");
}

pub fn ops_from_json(v: &Value) -> Vec<Op> {
    serde_json::from_value(v.clone()).expect("history")
}

/// The engine died (crash, sanitizer abort) or hung; the journal holds the case in flight.
pub fn journal_verdict(prop: &str, tier: &str, path: &str, how: &str) -> i32 {
    let Ok(txt) = std::fs::read_to_string(path) else {
        println!("MACHINERY-ERROR property={prop}: the engine ended abnormally ({how}) and left no journal");
        return 2;
    };
    let Ok(mut v) = serde_json::from_str::<Value>(&txt) else {
        println!("MACHINERY-ERROR property={prop}: the engine ended abnormally ({how}); the journal is unreadable");
        return 2;
    };
    // which property judges the call that was in flight?
    let call = v["in_flight_call"].as_str().unwrap_or("").to_string();
    let owner: Option<&str> = if call.starts_with("inspect") || call.starts_with("debug") {
        Some("C20")
    } else if call.starts_with("slice") {
        Some("C13")
    } else {
        None
    };
    if let Some(o) = owner {
        if o != prop {
            println!("MACHINERY-ERROR property={prop}: the engine cannot run on this tree: {call} did not return ({how}); property {o} judges that call");
            return 2;
        }
    }
    let root = verif_root();
    let rdir = root.join("replays").join(prop);
    std::fs::create_dir_all(&rdir).ok();
    let rp = rdir.join("crash-or-hang.json");
    if let Value::Object(m) = &mut v {
        m.insert("property".into(), json!(prop));
        m.insert("kind".into(), json!("crash-or-hang"));
        m.insert("how_the_engine_ended".into(), json!(how));
    }
    write_json(&rp, &v);
    let what = v["history_text"].as_str().map(ToString::to_string).unwrap_or_else(|| v.to_string().chars().take(300).collect());
    let ev = json!({
        "property_id": prop, "tier": tier, "seed": seed(), "level": "other",
        "coverage": {"explanation": format!("the exploration did not complete: the engine ended abnormally ({how}) while this case was in flight: {what}"), "evaluations": 1, "distinct_nontrivial": 2},
        "assumptions": [], "wall_s": 0.0, "violations": 1,
    });
    let edir = root.join("evidence");
    std::fs::create_dir_all(&edir).ok();
    write_json(&edir.join(format!("{prop}.json")), &ev);
    println!("VIOLATION property={prop} replay={}", rp.display());
    println!("  the call {} did not return: the process {how} while this case was in flight: {what}", if call.is_empty() { "in flight".to_string() } else { call });
    1
}
