//! What is in flight: lets a supervisor attribute a hang or a crash (stack
//! overflow, abort) to the case that was running.
//!
//! Normal mode: every worker stamps a progress clock; a watchdog thread ends
//! the process with exit code 3 ("HANG") when one worker makes no progress for
//! too long. The driver then re-runs the engine in journal mode
//! (VX_JOURNAL=<file>, single worker): the case in flight is written to the
//! journal before it runs, so that after the hang or crash the driver finds it
//! there and turns it into a replay file and a VIOLATION line.

use serde_json::Value;
use std::cell::{Cell, RefCell};
use std::sync::atomic::{AtomicBool, AtomicU64, Ordering};
use std::sync::OnceLock;
use std::time::Instant;

static START: OnceLock<Instant> = OnceLock::new();
const SLOTS: usize = 256;
static PROGRESS: [AtomicU64; SLOTS] = [const { AtomicU64::new(0) }; SLOTS];
static NEXT_SLOT: AtomicU64 = AtomicU64::new(0);
static WATCHDOG_ON: AtomicBool = AtomicBool::new(false);

thread_local! {
    static SLOT: Cell<usize> = const { Cell::new(usize::MAX) };
    static CASE: RefCell<Option<Value>> = const { RefCell::new(None) };
}

fn now_ms() -> u64 {
    START.get_or_init(Instant::now).elapsed().as_millis() as u64 + 1
}

pub fn journal_path() -> Option<String> {
    static P: OnceLock<Option<String>> = OnceLock::new();
    P.get_or_init(|| std::env::var("VX_JOURNAL").ok().filter(|s| !s.is_empty())).clone()
}

pub fn journal_mode() -> bool {
    journal_path().is_some()
}

/// seconds a single case may take before it counts as a hang
pub fn hang_limit_s() -> u64 {
    std::env::var("VX_HANG_S").ok().and_then(|s| s.parse().ok()).unwrap_or(20)
}

/// Called by a worker when it starts a case. `describe` (evaluated in journal
/// mode only) gives the replay object of the case.
pub fn begin_case(describe: impl FnOnce() -> Value) {
    SLOT.with(|s| {
        if s.get() == usize::MAX {
            s.set((NEXT_SLOT.fetch_add(1, Ordering::Relaxed) as usize) % SLOTS);
        }
        PROGRESS[s.get()].store(now_ms(), Ordering::Relaxed);
    });
    if let Some(p) = journal_path() {
        let v = describe();
        let _ = std::fs::write(&p, serde_json::to_string(&v).unwrap_or_default());
        CASE.with(|c| *c.borrow_mut() = Some(v));
    }
}

/// A long case is still making progress (large image being cut, ...).
pub fn progress() {
    SLOT.with(|s| {
        if s.get() != usize::MAX {
            PROGRESS[s.get()].store(now_ms(), Ordering::Relaxed);
        }
    });
}

/// A worker is idle (finished its chunk): no hang can be blamed on it.
pub fn idle() {
    SLOT.with(|s| {
        if s.get() != usize::MAX {
            PROGRESS[s.get()].store(0, Ordering::Relaxed);
        }
    });
}

/// The call about to be made inside the current case (journal mode only).
pub fn note(what: &str, v: usize) {
    if let Some(p) = journal_path() {
        CASE.with(|c| {
            if let Some(Value::Object(m)) = c.borrow_mut().as_mut() {
                m.insert("in_flight_call".into(), Value::String(format!("{what}({v})")));
                let _ = std::fs::write(&p, serde_json::to_string(&Value::Object(m.clone())).unwrap_or_default());
            }
        });
    }
}

/// Start the watchdog (once per process).
pub fn start_watchdog() {
    if WATCHDOG_ON.swap(true, Ordering::SeqCst) {
        return;
    }
    let limit_ms = hang_limit_s() * 1000;
    std::thread::spawn(move || loop {
        std::thread::sleep(std::time::Duration::from_millis(500));
        let now = now_ms();
        for p in &PROGRESS {
            let t = p.load(Ordering::Relaxed);
            if t != 0 && now > t + limit_ms {
                println!("HANG-DETECTED: a case has been running for more than {} s", limit_ms / 1000);
                crate::real::remove_scratch_dir();
                std::process::exit(3);
            }
        }
    });
}

/// Number of worker threads: 1 in journal mode, VX_THREADS if set, else all cores.
pub fn worker_threads() -> usize {
    if journal_mode() {
        return 1;
    }
    std::env::var("VX_THREADS").ok().and_then(|s| s.parse().ok()).unwrap_or_else(|| std::thread::available_parallelism().map_or(8, |x| x.get()))
}
