//! Per-property plans: which explorations decide which property, per tier.

use crate::hx::{self, HxCfg, HxResult};
use crate::model::Op;
use crate::report::{self, Failure, Outcome};
use serde_json::json;
use std::time::{Duration, Instant};

pub fn quick(tier: &str) -> bool {
    tier != "thorough"
}

fn secs(s: u64) -> Duration {
    Duration::from_secs(s)
}

/// base alphabets
fn a3(prop: &'static str, name: &str) -> HxCfg {
    HxCfg::new(prop, name, 2, 3, &[0, 1, 2], &[0], &[0])
}
fn a4(prop: &'static str, name: &str) -> HxCfg {
    HxCfg::new(prop, name, 2, 4, &[0, 1, 2, 3], &[0], &[0])
}
fn a5(prop: &'static str, name: &str) -> HxCfg {
    HxCfg::new(prop, name, 2, 5, &[1, 2, 3, 4], &[0], &[0])
}
fn a3x(prop: &'static str, name: &str) -> HxCfg {
    HxCfg::new(prop, name, 2, 3, &[0, 1, 2], &[0, 1], &[0, 1])
}
fn a256(prop: &'static str, name: &str) -> HxCfg {
    HxCfg::new(prop, name, 16, 256, &[0, 5, 254, 255], &[0], &[0])
}

/// data beyond a few dozen bytes inside ordinary histories: 255 and 4097 bytes (one- and two-byte length boundaries)
fn big(prop: &'static str) -> HxCfg {
    HxCfg::new(prop, "3 ids, data of 255 and 4097 bytes", 2, 3, &[0, 1, 2], &[0], &[250, 252])
}
/// one datum above 64 KiB next to the 256-byte one
fn huge(prop: &'static str) -> HxCfg {
    HxCfg::new(prop, "3 ids, data of 256 and 65 537 bytes", 2, 3, &[0, 1, 2], &[0], &[251, 253])
}
/// an edge capacity and a vertex capacity that are no powers of two, ids in the thousands
fn odd(prop: &'static str) -> HxCfg {
    HxCfg::new(prop, "ids 0, 1499, 2998 in 2999 slots, Sodg<7>", 7, 2999, &[0, 1499, 2998], &[0], &[0])
}

/// the labels the code base treats specially somewhere (DOT attributes): ρ and π
fn rho(prop: &'static str) -> HxCfg {
    HxCfg::new(prop, "3 ids, labels ρ and π", 2, 3, &[0, 1, 2], &[3, 6], &[0])
}
/// ids that do not fit 16 bits
fn wide(prop: &'static str) -> HxCfg {
    HxCfg::new(prop, "ids 220, 65 536, 65 999 in 66 000 slots", 2, 66_000, &[220, 65_536, 65_999], &[0], &[0])
}
fn alike(prop: &'static str) -> HxCfg {
    HxCfg::new(prop, "3 ids, two labels that print alike ('a b' and 'ab')", 2, 3, &[0, 1, 2], &[8, 9], &[0])
}

fn all_ops(mut c: HxCfg) -> HxCfg {
    c.clone_swap = true;
    c.reload_swap = true;
    c.merges = vec![0, 1, 2];
    c
}

/// plus merges that have to be refused (tree + stray vertex): whatever they leave behind, the history goes on
fn refused(mut c: HxCfg) -> HxCfg {
    c.merge_fails = vec![1, 2];
    c
}

/// scripts as transitions: a well-formed one, and one that fails after four commands have been applied
fn scripted(mut c: HxCfg) -> HxCfg {
    c.scripts = vec![0, 1, 2, 3];
    c
}

fn swaps(mut c: HxCfg) -> HxCfg {
    c.clone_swap = true;
    c.reload_swap = true;
    c
}

fn depth(mut c: HxCfg, d: usize) -> HxCfg {
    c.max_depth = d;
    c
}

fn wall(mut c: HxCfg, s: u64) -> HxCfg {
    c.wall = secs(s);
    c
}

fn drain(mut c: HxCfg) -> HxCfg {
    c.probes.drain = true;
    c
}

/// Seeds: states the small alphabets reach late or not at all.
pub fn seed_two_groups_and_bystander() -> (String, Vec<Op>) {
    (
        "two groups alive + an ungrouped vertex".to_string(),
        vec![Op::Add(0), Op::Add(1), Op::Add(2), Op::Add(3), Op::Add(4), Op::Bind(0, 1, 0), Op::Bind(2, 3, 0), Op::Put(1, 0), Op::Put(3, 0)],
    )
}

pub fn seed_recycled() -> (String, Vec<Op>) {
    (
        "every id used once and collected (recycled slots)".to_string(),
        vec![
            Op::Add(0),
            Op::Add(1),
            Op::Bind(0, 1, 0),
            Op::Put(0, 0),
            Op::Add(2),
            Op::Add(3),
            Op::Bind(2, 3, 0),
            Op::Bind(3, 2, 0),
            Op::Put(3, 0),
            Op::Add(4),
            Op::Bind(2, 4, 0),
            Op::Put(4, 0),
            Op::Data(0),
            Op::Data(3),
            Op::Data(4),
        ],
    )
}

pub fn seed_group_of_four() -> (String, Vec<Op>) {
    (
        "a 4-member group holding one unread datum + an ungrouped vertex".to_string(),
        vec![Op::Add(0), Op::Add(1), Op::Add(2), Op::Add(3), Op::Add(4), Op::Bind(0, 1, 0), Op::Bind(1, 2, 0), Op::Bind(3, 2, 0), Op::Put(3, 0)],
    )
}

/// An edge from a surviving vertex to a collected one: two groups, a cross-group edge (which
/// merges nothing), the target's group collected. kids()/exports/inspect/slice/clone/save see it.
pub fn seed_dangling_edge() -> (String, Vec<Op>) {
    (
        "a surviving vertex with an edge to a collected vertex (cross-group edge, target's group collected)".to_string(),
        vec![Op::Add(0), Op::Add(1), Op::Add(2), Op::Add(3), Op::Bind(0, 1, 0), Op::Bind(2, 3, 0), Op::Bind(1, 2, 0), Op::Put(3, 0), Op::Put(0, 0), Op::Data(3)],
    )
}

pub fn seed_idle_group() -> (String, Vec<Op>) {
    ("a group that holds no data yet + two ungrouped vertices".to_string(), vec![Op::Add(0), Op::Add(1), Op::Add(2), Op::Add(3), Op::Bind(0, 1, 0)])
}

pub fn seed_reloaded() -> (String, Vec<Op>) {
    ("a group with unread data, reloaded from disk".to_string(), vec![Op::Add(1), Op::Add(2), Op::Bind(1, 2, 0), Op::Put(2, 0), Op::Add(3), Op::Put(3, 0), Op::ReloadSwap])
}

fn seeded5(prop: &'static str, name: &str, d: usize) -> HxCfg {
    let mut c = HxCfg::new(prop, name, 2, 5, &[0, 1, 2, 3, 4], &[0], &[0]);
    c.seeds = vec![seed_two_groups_and_bystander(), seed_recycled(), seed_reloaded(), seed_group_of_four(), seed_dangling_edge(), seed_idle_group()];
    c.clone_swap = true;
    c.reload_swap = true;
    c.max_depth = d;
    c
}

/// The explorations behind the GC properties C01/C02/C04/C06 share alphabets;
/// each property runs them with its own oracle attribution.
fn gc_plan(prop: &'static str, tier: &str) -> Vec<HxCfg> {
    if quick(tier) {
        vec![
            drain(scripted(refused(all_ops(a3(prop, "3 ids, all ops, refused merges, scripts"))))),
            drain(depth(a4(prop, "4 ids"), 7)),
            drain(depth(swaps(a4(prop, "4 ids with clone- and reload-swaps")), 6)),
            drain(depth(a5(prop, "ids 1..4 in 5 slots"), 6)),
            drain(seeded5(prop, "5 ids from seeds", 4)),
            drain(HxCfg::new(prop, "3 ids, heap-encoded data of two lengths and the empty datum", 2, 3, &[0, 1, 2], &[0], &[1, 6, 2])),
            drain(depth(a256(prop, "ids 0,5,254,255 in 256 slots, Sodg<16>"), 4)),
            drain(depth(swaps(big(prop)), 5)),
            drain(depth(huge(prop), 4)),
            drain(depth(odd(prop), 4)),
            drain(depth(rho(prop), 6)),
            drain(depth(wide(prop), 4)),
        ]
    } else {
        vec![
            wall(drain(scripted(refused(all_ops(a3(prop, "3 ids, all ops, refused merges, scripts"))))), 300),
            wall(drain(depth(scripted(swaps(a4(prop, "4 ids, swaps, scripts"))), 8)), 600),
            wall(drain(all_ops(a3x(prop, "3 ids, 2 labels, 2 data, all ops"))), 1200),
            wall(drain(a4(prop, "4 ids")), 1200),
            wall(drain(depth(all_ops(a4(prop, "4 ids, all ops")), 10)), 900),
            wall(drain(depth(a5(prop, "ids 1..4 in 5 slots"), 11)), 600),
            wall(drain(depth(HxCfg::new(prop, "5 ids in 5 slots", 2, 5, &[0, 1, 2, 3, 4], &[0], &[0]), 9)), 600),
            wall(drain(depth(a256(prop, "ids 0,5,254,255 in 256 slots, Sodg<16>"), 9)), 600),
            wall(drain(HxCfg::new(prop, "3 ids, heap-encoded data of two lengths and the empty datum", 2, 3, &[0, 1, 2], &[0], &[1, 6, 2])), 300),
            wall(drain(depth(HxCfg::new(prop, "3 ids, Sodg<1>, 2 labels", 1, 3, &[0, 1, 2], &[0, 1], &[0]), 12)), 600),
            wall(drain(seeded5(prop, "5 ids from seeds", 5)), 600),
            wall(drain(depth(all_ops(big(prop)), 7)), 600),
            wall(drain(depth(swaps(huge(prop)), 5)), 600),
            wall(drain(depth(swaps(odd(prop)), 6)), 600),
            wall(drain(rho(prop)), 900),
            wall(drain(depth(wide(prop), 6)), 600),
        ]
    }
}

pub fn hx_plan(prop: &'static str, tier: &str) -> Vec<HxCfg> {
    match prop {
        "C01" | "C02" | "C06" => gc_plan(prop, tier),
        "C04" => {
            // add() must also work on graphs that slice() returned
            let mut v = gc_plan(prop, tier);
            for c in v.iter_mut().take(2) {
                c.probes.slice_add = true;
            }
            v
        }
        "C03" => {
            let mut v = vec![];
            let mut c = HxCfg::new(prop, "3 ids, 3 labels (N=2: label capacity is hit)", 2, 3, &[0, 1, 2], &[0, 1, 2], &[0]);
            if quick(tier) {
                c.max_depth = 7;
                v.push(c);
                v.push(depth(HxCfg::new(prop, "3 ids, 2 labels, 2 data", 2, 3, &[0, 1, 2], &[0, 3], &[0, 1]), 7));
                let mut m = all_ops(a3(prop, "3 ids, all ops (merges incl. a tree carrying the empty datum)"));
                m.merges = vec![0, 1, 2, 3];
                v.push(m);
                v.push(depth(a4(prop, "4 ids"), 6));
                v.push(seeded5(prop, "5 ids from seeds", 3));
                v.push(depth(HxCfg::new(prop, "3 ids, two labels that print alike ('a b' and 'ab')", 2, 3, &[0, 1, 2], &[8, 9], &[0]), 6));
                v.push(depth(swaps(big(prop)), 5));
                v.push(depth(huge(prop), 4));
                v.push(depth(odd(prop), 4));
                v.push(depth(rho(prop), 6));
                v.push(depth(wide(prop), 3));
            } else {
                v.push(wall(depth(c, 10), 900));
                let mut m = all_ops(a3x(prop, "3 ids, 2 labels, 2 data, all ops (merges incl. a tree carrying the empty datum)"));
                m.merges = vec![0, 1, 2, 3];
                v.push(wall(m, 1500));
                v.push(wall(a4(prop, "4 ids"), 1500));
                v.push(wall(depth(a256(prop, "ids 0,5,254,255 in 256 slots, Sodg<16>"), 7), 900));
                v.push(wall(seeded5(prop, "5 ids from seeds", 5), 600));
                v.push(wall(depth(all_ops(big(prop)), 7), 600));
                v.push(wall(depth(swaps(huge(prop)), 5), 600));
                v.push(wall(depth(swaps(odd(prop)), 6), 600));
            }
            v
        }
        "C05" => {
            let t = |mut c: HxCfg| {
                c.track_returned = true;
                // the graph handed over to an object that has lived before (own allocator position)
                c.clone_from_swap = c.clone_swap;
                // scripts whose variable takes an id from next_id(), succeeding and failing later on
                c.scripts = vec![2, 3];
                c
            };
            if quick(tier) {
                vec![t(all_ops(a3(prop, "3 ids, all ops"))), t(depth(a4(prop, "4 ids"), 7)), t(depth(all_ops(a5(prop, "ids 1..4 in 5 slots, all ops")), 5)), t(depth(swaps(odd(prop)), 4))]
            } else {
                vec![
                    wall(t(all_ops(a3(prop, "3 ids, all ops"))), 300),
                    wall(t(depth(all_ops(a4(prop, "4 ids, all ops")), 10)), 1200),
                    wall(t(depth(all_ops(a5(prop, "ids 1..4 in 5 slots, all ops")), 8)), 900),
                    wall(t(depth(all_ops(a256(prop, "ids 0,5,254,255 in 256 slots")), 6)), 900),
                    wall(t(depth(all_ops(odd(prop)), 6)), 600),
                ]
            }
        }
        "C08" | "C09" => {
            // reload as a transition (the reloaded object is the next state and is explored
            // further) + reload probe on every state; C09 cuts every distinct image
            let r = |mut c: HxCfg| {
                c.reload_swap = true;
                c.probes.reload = prop == "C08";
                c.probes.cuts = prop == "C09";
                c.probes.drain = prop == "C08";
                c
            };
            let enc = |name: &str, n: usize, cap: usize, ids: &[usize]| HxCfg::new(prop, name, n, cap, ids, &[0, 2, 3], &[0, 1, 2, 4, 5]);
            if quick(tier) {
                vec![
                    r(all_ops(a3(prop, "3 ids, all ops"))),
                    r(depth(enc("3 ids, 3 label kinds, 5 data encodings", 2, 3, &[0, 1, 2]), 5)),
                    r(depth(a4(prop, "4 ids"), 6)),
                    r(depth(HxCfg::new(prop, "ids 0,5,254,255 in 256 slots, Sodg<16>", 16, 256, &[0, 5, 254, 255], &[0], &[0, 1]), 3)),
                    r(seeded5(prop, "5 ids from seeds", 2)),
                    r(depth(big(prop), if prop == "C09" { 3 } else { 5 })),
                    r(depth(huge(prop), if prop == "C09" { 2 } else { 4 })),
                    if prop == "C09" { r(depth(HxCfg::new(prop, "ids 0, 5, 10 in 11 slots, Sodg<7>", 7, 11, &[0, 5, 10], &[0], &[0]), 3)) } else { r(depth(odd(prop), 4)) },
                    r(depth(alike(prop), if prop == "C09" { 4 } else { 5 })),
                    // an image of several 64 KiB blocks made of thousands of equal records
                    r(depth(HxCfg::new(prop, "ids 0, 1499, 2998 in 2999 slots, Sodg<1>", 1, 2999, &[0, 1499, 2998], &[0], &[0]), if prop == "C09" { 2 } else { 3 })),
                ]
            } else {
                vec![
                    wall(r(all_ops(a3(prop, "3 ids, all ops"))), 600),
                    wall(r(depth(all_ops(a3x(prop, "3 ids, 2 labels, 2 data, all ops")), if prop == "C09" { 8 } else { 11 })), 1200),
                    wall(r(depth(enc("3 ids, 3 label kinds, 5 data encodings", 2, 3, &[0, 1, 2]), 7)), 1200),
                    wall(r(depth(enc("3 ids, 3 label kinds, 5 data encodings, Sodg<1>", 1, 3, &[0, 1, 2]), 7)), 900),
                    wall(r(depth(all_ops(a4(prop, "4 ids, all ops")), if prop == "C09" { 7 } else { 9 })), 1200),
                    wall(r(depth(HxCfg::new(prop, "ids 0,5,254,255 in 256 slots, Sodg<16>", 16, 256, &[0, 5, 254, 255], &[0], &[0, 1]), 5)), 1200),
                    wall(r(seeded5(prop, "5 ids from seeds", 4)), 900),
                    wall(r(depth(big(prop), if prop == "C09" { 4 } else { 7 })), 900),
                    wall(r(depth(huge(prop), if prop == "C09" { 3 } else { 5 })), 900),
                    if prop == "C09" { wall(r(depth(HxCfg::new(prop, "ids 0, 5, 10 in 11 slots, Sodg<7>", 7, 11, &[0, 5, 10], &[0], &[0]), 5)), 900) } else { wall(r(depth(odd(prop), 6)), 900) },
                ]
            }
        }
        "C10" => {
            let c = |mut c: HxCfg| {
                c.clone_swap = true;
                c.clone_from_swap = true;
                c.probes.clone = true;
                c
            };
            if quick(tier) {
                vec![c(all_ops(a3(prop, "3 ids, all ops"))), c(depth(a4(prop, "4 ids"), 6)), c(depth(HxCfg::new(prop, "3 ids, heap, inline, short-heap and empty data", 2, 3, &[0, 1, 2], &[0], &[0, 1, 4, 2]), 6)), c(seeded5(prop, "5 ids from seeds", 2)), c(depth(big(prop), 5)), c(depth(huge(prop), 3)), c(depth(odd(prop), 4)), c(depth(alike(prop), 5))]
            } else {
                vec![
                    wall(c(all_ops(a3(prop, "3 ids, all ops"))), 600),
                    wall(c(depth(all_ops(a3x(prop, "3 ids, 2 labels, 2 data, all ops")), 11)), 1500),
                    wall(c(depth(all_ops(a4(prop, "4 ids, all ops")), 9)), 1500),
                    wall(c(seeded5(prop, "5 ids from seeds", 4)), 900),
                    wall(c(depth(a256(prop, "ids 0,5,254,255 in 256 slots, Sodg<16>"), 5)), 900),
                    wall(c(depth(big(prop), 7)), 900),
                    wall(c(depth(huge(prop), 5)), 900),
                    wall(c(depth(odd(prop), 6)), 900),
                ]
            }
        }
        "C13" | "C18" | "C20" => {
            let p = |mut c: HxCfg| {
                c.probes.slice = prop == "C13";
                c.probes.exports = prop == "C18";
                c.probes.texts = prop == "C20";
                c
            };
            if quick(tier) {
                vec![
                    p(all_ops(a3(prop, "3 ids, all ops"))),
                    p(depth(HxCfg::new(prop, "3 ids, 3 label kinds, 4 data (8, 9, 0 and 17 bytes)", 3, 3, &[0, 1, 2], &[0, 1, 2], &[0, 1, 2, 6]), 5)),
                    p(depth(a4(prop, "4 ids"), 6)),
                    p(depth(HxCfg::new(prop, "ids 0,2,5 in 7 slots (never-added slots in between)", 2, 7, &[0, 2, 5], &[0, 3], &[3]), 5)),
                    p(seeded5(prop, "5 ids from seeds", 2)),
                    p(depth(HxCfg::new(prop, "ids 0, 256, 511 in 520 slots", 2, 520, &[0, 256, 511], &[0], &[3]), 4)),
                    p(depth(HxCfg::new(prop, "3 ids, two labels that print alike ('a b' and 'ab')", 2, 3, &[0, 1, 2], &[8, 9], &[3]), 5)),
                    p(depth(big(prop), 4)),
                    p(depth(huge(prop), 3)),
                    p(depth(odd(prop), 4)),
                ]
            } else {
                vec![
                    wall(p(all_ops(a3(prop, "3 ids, all ops"))), 600),
                    wall(p(depth(all_ops(a3x(prop, "3 ids, 2 labels, 2 data, all ops")), 10)), 1500),
                    wall(p(depth(HxCfg::new(prop, "3 ids, 3 label kinds, 4 data (8, 9, 0 and 17 bytes)", 3, 3, &[0, 1, 2], &[0, 1, 2], &[0, 1, 2, 6]), 7)), 1200),
                    wall(p(depth(a4(prop, "4 ids"), 10)), 1500),
                    wall(p(depth(HxCfg::new(prop, "ids 0,2,5 in 7 slots (never-added slots in between)", 2, 7, &[0, 2, 5], &[0, 3], &[3]), 7)), 900),
                    wall(p(seeded5(prop, "5 ids from seeds", 4)), 900),
                    wall(p(depth(HxCfg::new(prop, "ids 0, 256, 511 in 520 slots", 2, 520, &[0, 256, 511], &[0], &[3]), 6)), 600),
                    wall(p(depth(HxCfg::new(prop, "3 ids, two labels that print alike ('a b' and 'ab')", 2, 3, &[0, 1, 2], &[8, 9], &[3]), 7)), 600),
                    wall(p(depth(big(prop), 6)), 600),
                    wall(p(depth(huge(prop), 4)), 600),
                    wall(p(depth(odd(prop), 6)), 600),
                ]
            }
        }
        "C14" => {
            // scripts deployed in the middle of histories: onto graphs with groups, unread data,
            // recycled slots; a failing script is followed by every continuation
            if quick(tier) {
                vec![drain(scripted(all_ops(a3(prop, "3 ids, all ops, scripts")))), drain(depth(scripted(a4(prop, "4 ids, scripts")), 5)), drain(depth(scripted(seeded5(prop, "5 ids from seeds, scripts", 2)), 2))]
            } else {
                vec![
                    wall(drain(scripted(all_ops(a3(prop, "3 ids, all ops, scripts")))), 600),
                    wall(drain(depth(scripted(all_ops(a3x(prop, "3 ids, 2 labels, 2 data, all ops, scripts"))), 9)), 900),
                    wall(drain(depth(scripted(swaps(a4(prop, "4 ids, swaps, scripts"))), 8)), 900),
                    wall(drain(depth(scripted(seeded5(prop, "5 ids from seeds, scripts", 4)), 4)), 600),
                    wall(drain(depth(scripted(a256(prop, "ids 0,5,254,255 in 256 slots, Sodg<16>, scripts")), 5)), 600),
                ]
            }
        }
        "C19" => {
            let l = |mut c: HxCfg, cfgs: &[(usize, usize)], rerun: usize| {
                c.probes.lockstep = cfgs.to_vec();
                c.probes.rerun = rerun;
                c
            };
            if quick(tier) {
                vec![
                    l(depth(all_ops(HxCfg::new(prop, "3 ids, 2 labels: α10 (an index above N) and x (A = Sodg<2>, 3 slots)", 2, 3, &[0, 1, 2], &[7, 1], &[0])), 5), &[(2, 4), (3, 4), (4, 8), (5, 16), (6, 32), (7, 64), (8, 128), (16, 3), (16, 256)], 2),
                    l(depth(a4(prop, "4 ids (A = Sodg<2>, 4 slots)"), 5), &[(9, 8), (10, 9), (11, 17), (12, 33), (13, 65), (14, 129), (15, 255), (16, 257), (2, 512), (2, 1024)], 1),
                    l(depth(HxCfg::new(prop, "ids 0, 300, 511 (A = Sodg<2>, 512 slots)", 2, 512, &[0, 300, 511], &[0], &[0]), 4), &[(3, 513), (16, 1024)], 1),
                    l(all_ops(HxCfg::new(prop, "3 ids, 1 label (A = Sodg<1>, 3 slots)", 1, 3, &[0, 1, 2], &[0], &[0])), &[(16, 4)], 1),
                    // states the small alphabets reach late: an edge to a collected vertex, recycled slots, two groups
                    l(seeded5(prop, "5 ids from seeds (A = Sodg<2>, 5 slots)", 2), &[(16, 256), (3, 6)], 1),
                ]
            } else {
                let mut all: Vec<(usize, usize)> = vec![];
                for n in 1..=16 {
                    for cap in [3, 4, 6, 64, 256] {
                        all.push((n, cap));
                    }
                }
                vec![
                    wall(l(depth(all_ops(HxCfg::new(prop, "3 ids, 1 label (A = Sodg<1>, 3 slots)", 1, 3, &[0, 1, 2], &[0], &[0])), 7), &all, 2), 1500),
                    wall(l(depth(all_ops(HxCfg::new(prop, "3 ids, 2 labels: α10 (an index above N) and x (A = Sodg<2>, 3 slots)", 2, 3, &[0, 1, 2], &[7, 1], &[0, 1])), 6), &all.iter().copied().filter(|(n, _)| *n >= 2).collect::<Vec<_>>(), 2), 1500),
                    wall(l(depth(a4(prop, "4 ids (A = Sodg<2>, 4 slots)"), 7), &[(16, 256), (2, 5), (9, 8), (3, 64), (16, 4)], 1), 1200),
                    wall(l(all_ops(a3(prop, "3 ids, all ops, to closure")), &[(16, 256), (2, 4)], 1), 1200),
                    wall(l(seeded5(prop, "5 ids from seeds (A = Sodg<2>, 5 slots)", 4), &[(16, 256), (3, 6), (7, 100)], 1), 900),
                ]
            }
        }
        _ => vec![],
    }
}

/// Counters that must be non-zero for a run of this property to mean anything.
fn required_counters(prop: &str) -> Vec<&'static str> {
    match prop {
        "C01" => vec!["model_collections", "first_read_on_ungrouped", "put_before_bind_carried", "states_with_2plus_groups_alive"],
        "C02" => vec!["overwrite_of_unread_datum", "reput_after_read", "put_before_bind_carried", "collections_of_size_2", "collections_of_size_3", "collections_of_size_4plus"],
        "C03" => vec!["rebind_existing_label", "rebind_at_full_edge_capacity", "repeated_read", "collections_with_survivors"],
        "C04" => vec!["readd_of_collected_id_that_had_edges", "readd_of_collected_id_that_had_data", "add_of_grouped_present_vertex", "add_next_calls"],
        "C05" => vec!["next_id_calls", "add_next_calls", "model_collections", "clone_swaps", "merges"],
        "C06" => vec!["model_collections"],
        "C14" => vec!["scripts_deployed", "scripts_failing_after_four_commands", "model_collections"],
        "C08" => vec!["reload_swaps", "reloads_compared", "reload_probe_with_unread_in_group", "reload_probe_with_taken_data", "reload_probe_with_heap_data", "reload_with_2plus_groups", "reload_with_nonzero_allocator"],
        "C09" => vec!["cut_files_loaded", "distinct_images_cut"],
        "C10" => vec!["clone_swaps", "clone_futures_compared", "clone_independence_checks"],
        "C13" => vec!["slices_judged", "slices_of_cyclic_or_shared_shapes"],
        "C19" => vec!["configurations_compared", "reruns_compared"],
        "C20" => vec!["inspect_on_cyclic_or_shared_shapes"],
        _ => vec![],
    }
}

pub fn run_hx_prop(prop: &'static str, tier: &str) -> Outcome {
    let t0 = Instant::now();
    let plan = hx_plan(prop, tier);
    let mut results: Vec<HxResult> = vec![];
    let mut failures: Vec<Failure> = vec![];
    let mut total = 0u64;
    let mut machinery = vec![];
    for cfg in &plan {
        eprintln!("[{prop}] exploring {}", cfg.describe());
        let r = hx::run(cfg);
        eprintln!(
            "[{prop}]   states {} transitions {} depth {} closed {} cap {:?} violations {} diverged {} ({:.1}s)",
            r.states, r.transitions, r.depth_completed, r.closed, r.cap_hit, r.violation_count, r.diverged_other, r.wall_s
        );
        total += r.violation_count;
        machinery.extend(r.machinery.iter().cloned());
        for v in &r.violations {
            // every failing case is re-executed from scratch before it is reported
            match crate::replay::replay_hx_violation(cfg, v) {
                Ok(true) => {
                    if !failures.iter().any(|f: &Failure| f.signature == format!("hx:{}", v.kind)) {
                        failures.push(report::hx_failure(cfg, v));
                    }
                }
                Ok(false) if [1u8, 2].iter().any(|k| {
                    crate::dirty::set_before_last(*k);
                    let again = crate::replay::replay_hx_violation(cfg, v);
                    crate::dirty::set_before_last(0);
                    crate::dirty::mark_clean();
                    again == Ok(true)
                }) => {
                    // reproduces only right after failing calls on unrelated objects in the same thread
                    let mut v2 = v.clone();
                    v2.detail = format!("{} - this shows only when calls on UNRELATED graphs and values (failing ones, or complete successful ones: harness/src/dirty.rs) came right before in the same thread: some state outside the graph leaks from one object to another", v.detail);
                    if !failures.iter().any(|f: &Failure| f.signature == format!("hx:{}", v.kind)) {
                        failures.push(report::hx_failure(cfg, &v2));
                    }
                }
                Ok(false) if prop == "C19" => {
                    // the comparison came out differently when it was made again: that IS run-to-run nondeterminism
                    let mut v2 = v.clone();
                    v2.kind = "answer-changes-from-run-to-run".to_string();
                    v2.detail = format!("{} - and when the same history was replayed once more the answers agreed: the result is not deterministic", v.detail);
                    if !failures.iter().any(|f: &Failure| f.signature == "hx:answer-changes-from-run-to-run") {
                        failures.push(report::hx_failure(cfg, &v2));
                    }
                }
                Ok(false) => {
                    // The explorer has no clock and no randomness, and the oracle is a pure function of the
                    // history: an answer that contradicted the model during the exploration (where many graphs
                    // live in one thread, at re-used addresses) and agrees with it when the same history is
                    // replayed alone was given by the real code all the same - it depends on something outside
                    // the graph's own history. That contradicts the property for this history (and C19).
                    let mut v2 = v.clone();
                    v2.detail = format!("{} - NOTE: this answer was given during the exploration, where many graphs live in one thread and addresses are re-used; when the history is replayed alone (also right after the calls of harness/src/dirty.rs) the answer is the right one. The explorer is deterministic and its oracle a function of the history alone, so the answer depends on something outside the graph's own history: state shared between objects through the thread, the process or an address. `./check replay` may therefore not reproduce it", v.detail);
                    if !failures.iter().any(|f: &Failure| f.signature == format!("hx:{}", v.kind)) {
                        failures.push(report::hx_failure(cfg, &v2));
                    }
                }
                Err(e) => machinery.push(format!("replay failed: {e}")),
            }
        }
        results.push(r);
        // give the memory of the finished exploration back before the next one starts
        unsafe {
            libc::malloc_trim(0);
        }
    }
    // non-vacuity
    let mut counters: std::collections::BTreeMap<String, u64> = Default::default();
    for r in &results {
        for (k, v) in &r.counters {
            *counters.entry(k.clone()).or_insert(0) += v;
        }
    }
    let diverged: u64 = results.iter().map(|r| r.diverged_other).sum();
    let mut vacuous = vec![];
    for k in required_counters(prop) {
        if counters.get(k).copied().unwrap_or(0) == 0 {
            vacuous.push(k);
        }
    }
    if !vacuous.is_empty() && failures.is_empty() {
        if diverged == 0 {
            machinery.push(format!("vacuous run: required situations never occurred: {vacuous:?}"));
        } else {
            eprintln!("[{prop}] note: situations {vacuous:?} never occurred because the implementation diverges from the model in ways other properties judge");
        }
    }
    let extra = json!({
        "required_situations": required_counters(prop),
        "situations_missing": vacuous,
    });
    Outcome {
        prop: prop.to_string(),
        tier: tier.to_string(),
        level: "model_checking".to_string(),
        coverage: report::hx_coverage(&results, extra),
        assumptions: vec![
            "the reference model (harness/src/model.rs) is the reading of the property statement".to_string(),
            "verdicts come from the public API; the verif_snapshot() hook only feeds the deduplication key".to_string(),
            "histories are over the stated id/label/data alphabets and configurations".to_string(),
        ],
        failures,
        failure_total: total,
        wall_s: t0.elapsed().as_secs_f64(),
        machinery,
    }
}

/// C13/C18/C20: probes on every HX state + GRAPHGEN, one exploration-level evidence.
pub fn run_hx_plus_graphs(prop: &'static str, tier: &str) -> Outcome {
    let t0 = Instant::now();
    let mut o = run_hx_prop(prop, tier);
    let (acc, rule) = crate::gen::graphgen::run(prop, tier);
    let hx_cov = o.coverage.clone();
    let probe_evals: u64 = hx_cov["runs"].as_array().map_or(0, |r| r.iter().map(|x| x["probe_runs"].as_u64().unwrap_or(0)).sum());
    let mut samples: Vec<serde_json::Value> = acc.samples.clone();
    if let Some(s) = hx_cov["samples"].as_array() {
        samples.extend(s.iter().take(4).cloned());
    }
    o.level = "exploration".to_string();
    o.coverage = json!({
        "evaluations": acc.evaluations + probe_evals,
        "distinct_nontrivial": acc.nontrivial + hx_cov["states"].as_u64().unwrap_or(0),
        "rule": format!("{rule}. PLUS the same probe on every state of the HX explorations (histories with collections, recycled slots, data): distinct states are distinct cases. distinct_nontrivial = graphs inside the limits + distinct HX states"),
        "samples": samples,
        "exhaustive": true,
        "graphgen": {"evaluations": acc.evaluations, "graphs": acc.nontrivial, "counters": acc.counters, "failing_cases": acc.fail_total},
        "hx": hx_cov,
    });
    if acc.nontrivial == 0 && acc.fail_total == 0 {
        o.machinery.push("GRAPHGEN built no graph".to_string());
    }
    o.failure_total += acc.fail_total;
    o.failures.extend(acc.failures);
    o.wall_s = t0.elapsed().as_secs_f64();
    o
}

/// C02/C03/C06: HX explorations + a directed exhaustive family, one model_checking evidence.
pub fn run_hx_plus_family(prop: &'static str, tier: &str) -> Outcome {
    let t0 = Instant::now();
    let mut o = run_hx_prop(prop, tier);
    let (acc, what) = match prop {
        "C05" => (crate::gen::families::run_c05_family(tier), "allocator families: a store of 70 000 slots whose first 65 530..65 790 ids are present, then next_id() calls, a collection and more next_id() calls (allocator position beyond 16 bits); stores of capacity 1, 2, 9, 10, 12, 17, 33, 64, 300, 1024 with 0-2 ids handed out first and a run of 0..39 explicitly added vertices right above the position, then up to 6 next_id()/add(next_id()) calls, each judged by the model that keeps the set of returned ids; plus 6 scripts with variables (succeeding and failing at different commands) x 2 capacities: the ids their variables got must not come again after the vertices are collected; plus merges of graphs that are not trees (every right graph of 2 or 3 vertices over 3 labels - quick: vertex 2 has no outgoing edges - onto 452 left shapes: 0..3 kids created by add(next_id()) or add(position+1/+2), every injective labelling, optional grandchild), then 3 next_id() calls with and without add: each id must be below the capacity, absent, and not handed out or created before (judged on the real graph alone, no model of the fold)"),
        "C08" => (crate::gen::families::run_swap_family("C08", Op::ReloadSwap), "k = 1..=14 groups alive (the 14th uses the last usable slot) with unread, read and ungrouped data, then save+load (once or three times in a row), then everything is read in either order; oracle: the reference model in lock-step after every call"),
        "C10" => (crate::gen::families::run_swap_family("C10", Op::CloneSwap), "k = 1..=14 groups alive (the 14th uses the last usable slot) with unread, read and ungrouped data, then clone() - or clone_from() into an object that was used before - (once or three times in a row), then everything is read in either order; oracle: the reference model in lock-step after every call"),
        "C02" => (crate::gen::families::run_c02_family(tier), "14 groups alive at once formed through either bind arm with put before/after the bind and drained in both orders; and every way to grow one group to exactly 16 members (each of the 14 joins through either bind arm: 2^14 patterns) next to a bystander group and an ungrouped vertex, data on one or two members (position derived from the pattern), put before or after the join, overwriting put, both read orders; oracle: the reference model in lock-step after every call"),
        "C03" => (crate::gen::families::run_c03_sweep(tier), "value sweep: 8 short histories (bind, rebind, two labels, put/read twice, overwrite, re-put, collection elsewhere, grouped data) x every data length 0..=17 (three contents each: mixed bytes, leading 00 / all 00, leading FF / all FF) x 40 labels (Alpha 0/1/10/255/256/MAX, single ASCII, Greek and 4-byte characters, texts of 2..8 characters incl. near-duplicates) x Sodg<1>, Sodg<2>, Sodg<16>"),
        _ => (crate::gen::families::run_c06_family(tier), "slot table at full scale: create 14 groups (all usable slots), kill a subset (2^14 occupancy patterns; quick: every third, one of the four (kill order, put-before/after-bind) combinations each; thorough: all), then 45 create-put-read cycles over a rotating set of 3 id pairs (one of them recycled ids) with the remaining 0..13 groups alive; plus runs of 150/300 cycles for every number 0..=13 of groups kept alive (4 cycle variants, one of which hands the graph over to a used object by clone_from() between the put and the read of every 4th cycle); oracle: the reference model in lock-step after every call"),
    };
    if acc.failures.iter().any(|f| f.signature.starts_with("machinery:")) {
        o.machinery.push(format!("the directed family generated a call outside the limits: {}", acc.failures.iter().find(|f| f.signature.starts_with("machinery:")).unwrap().summary));
    }
    if acc.nontrivial == 0 && acc.fail_total == 0 {
        o.machinery.push("the directed family completed no run".to_string());
    }
    if let serde_json::Value::Object(m) = &mut o.coverage {
        m.insert(
            "directed_family".into(),
            json!({"what": what, "real_calls_compared_with_the_model": acc.evaluations, "runs_completed": acc.nontrivial, "counters": acc.counters, "samples": acc.samples, "failing_cases": acc.fail_total}),
        );
        let t = m["traces_validated_against_impl"].as_u64().unwrap_or(0) + acc.evaluations;
        m.insert("traces_validated_against_impl".into(), json!(t));
    }
    o.failure_total += acc.fail_total;
    o.failures.extend(acc.failures.into_iter().filter(|f| !f.signature.starts_with("machinery:")));
    o.wall_s = t0.elapsed().as_secs_f64();
    o
}

/// C09: the evidence of a fault enumeration: cut files loaded, distinct images.
pub fn run_c09(tier: &str) -> Outcome {
    let mut o = run_hx_prop("C09", tier);
    let hx = o.coverage.clone();
    let c = &hx["non_vacuity_counters"];
    let images = c["distinct_images_cut"].as_u64().unwrap_or(0);
    let cuts = c["cut_files_loaded"].as_u64().unwrap_or(0);
    o.level = "fault_enumeration".to_string();
    o.coverage = json!({
        "evaluations": cuts,
        "distinct_nontrivial": images,
        "rule": "CUTS: for every distinct image (deduplicated by content) saved from a state of the HX explorations listed under hx.runs - graphs with heap and inline data, multi-edge vertices, several groups, recycled slots, capacities 3..256 - every prefix length 0 <= k < size is produced (the image is written once and shortened byte by byte; for the images above 100 000 bytes - stores of thousands of slots - every length within the first and the last 8 KiB, the five lengths around every multiple of 4 KiB and every 1021st length) and passed to the real Sodg::load(path): each must return Err (never Ok, never a panic); the complete image must load. evaluations = truncated files loaded; distinct_nontrivial = distinct images cut at every position",
        "samples": hx["samples"],
        "exhaustive": true,
        "fault_model": "truncation of the image at any byte position (what a crash during the single non-atomic fs::write leaves)",
        "hx": hx,
    });
    o
}

/// C14: PROGGEN (texts against their direct calls, on a fresh graph) + scripts as transitions of HX
/// (deployed in the middle of histories, failing ones followed by every continuation).
pub fn run_c14(tier: &str) -> Outcome {
    let t0 = Instant::now();
    let mut o = crate::gen::proggen::run_c14(tier);
    let h = run_hx_prop("C14", tier);
    if let serde_json::Value::Object(m) = &mut o.coverage {
        let hx_states = h.coverage["states"].as_u64().unwrap_or(0);
        let hx_tr = h.coverage["transitions"].as_u64().unwrap_or(0);
        let e = m["evaluations"].as_u64().unwrap_or(0) + hx_tr;
        let d = m["distinct_nontrivial"].as_u64().unwrap_or(0) + hx_states;
        m.insert("evaluations".into(), json!(e));
        m.insert("distinct_nontrivial".into(), json!(d));
        let rule = format!("{} PLUS scripts as transitions of the history explorer (HX): a well-formed 4-command script and one whose fifth command is malformed, for every ordered pair of ids, deployed in every state of the explorations listed under hx.runs (graphs with groups, unread data, recycled slots; after clones, reloads, merges), in lock-step with the reference model, which applies the four commands in both cases; every continuation is explored, so what a failing script leaves behind is followed. evaluations = texts + HX transitions; distinct_nontrivial = texts with a settled class + distinct HX states", m["rule"].as_str().unwrap_or(""));
        m.insert("rule".into(), json!(rule));
        m.insert("hx".into(), h.coverage.clone());
    }
    o.failure_total += h.failure_total;
    o.failures.extend(h.failures);
    o.machinery.extend(h.machinery);
    o.wall_s = t0.elapsed().as_secs_f64();
    o
}

/// C19: HX lock-step + the same comparison on every small digraph (GRAPHGEN).
pub fn run_c19(tier: &str) -> Outcome {
    let t0 = Instant::now();
    let mut o = run_hx_prop("C19", tier);
    let (acc, rule) = crate::gen::graphgen::run("C19", tier);
    if let serde_json::Value::Object(m) = &mut o.coverage {
        m.insert("graphgen".into(), json!({"rule": rule, "evaluations": acc.evaluations, "graphs": acc.nontrivial, "samples": acc.samples, "counters": acc.counters, "failing_cases": acc.fail_total}));
        let t = m["traces_validated_against_impl"].as_u64().unwrap_or(0) + acc.evaluations;
        m.insert("traces_validated_against_impl".into(), json!(t));
    }
    if acc.nontrivial == 0 && acc.fail_total == 0 {
        o.machinery.push("GRAPHGEN built no graph".to_string());
    }
    o.failure_total += acc.fail_total;
    o.failures.extend(acc.failures);
    o.wall_s = t0.elapsed().as_secs_f64();
    o
}

pub fn run(prop: &str, tier: &str) -> Option<Outcome> {
    match prop {
        "C02" => return Some(run_hx_plus_family("C02", tier)),
        "C05" => return Some(run_hx_plus_family("C05", tier)),
        "C08" => return Some(run_hx_plus_family("C08", tier)),
        "C10" => return Some(run_hx_plus_family("C10", tier)),
        "C03" => return Some(run_hx_plus_family("C03", tier)),
        "C06" => return Some(run_hx_plus_family("C06", tier)),
        "C07" => return Some(crate::c07::run_c07(tier)),
        "C09" => return Some(run_c09(tier)),
        "C19" => return Some(run_c19(tier)),
        "C11" => return Some(crate::gen::treegen::run_c11(tier)),
        "C12" => return Some(crate::gen::treegen::run_c12(tier)),
        "C13" => return Some(run_hx_plus_graphs("C13", tier)),
        "C18" => return Some(run_hx_plus_graphs("C18", tier)),
        "C20" => return Some(run_hx_plus_graphs("C20", tier)),
        "C14" => return Some(run_c14(tier)),
        "C15" => return Some(crate::gen::hexgen::run_c15(tier)),
        "C16" => return Some(crate::gen::hexgen::run_c16(tier)),
        "C17" => return Some(crate::gen::labelgen::run_c17(tier)),
        _ => {}
    }
    let p: &'static str = match prop {
        "C01" => "C01",
        "C02" => "C02",
        "C03" => "C03",
        "C04" => "C04",
        "C05" => "C05",
        "C06" => "C06",
        "C08" => "C08",
        "C09" => "C09",
        "C10" => "C10",
        "C13" => "C13",
        "C18" => "C18",
        "C19" => "C19",
        "C20" => "C20",
        _ => return None,
    };
    Some(run_hx_prop(p, tier))
}
