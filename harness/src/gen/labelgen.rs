//! LABELGEN: C17 (labels round-trip through text and stay distinct).

use super::Acc;
use crate::real::guarded;
use crate::report::Outcome;
use serde_json::{json, Value};
use sodg::{Label, Sodg};
use std::str::FromStr;
use std::time::Instant;

const SIGMA: [char; 13] = ['a', 'Z', '7', '0', '+', '-', '_', 'α', 'ρ', 'φ', 'Δ', '𝜑', ' '];
const SIGMA2: [char; 5] = ['a', 'ρ', 'α', '5', '𝜑'];
/// characters that look like the alpha sign or like a digit without being one (mathematical italic
/// alpha, Latin alpha, APL alpha, Cyrillic a, capital Alpha, Arabic-Indic and full-width digits), next to the real ones
const SIGMA3: [char; 11] = ['α', '𝛼', 'ɑ', '⍺', 'а', 'Α', '5', '٣', '５', 'x', '0'];

#[derive(Debug, PartialEq, Eq, Clone, Copy)]
pub enum Class {
    /// 1..=8 non-space characters, not starting with alpha: must round-trip
    Plain,
    /// alpha + canonical decimal: must round-trip as Alpha(n)
    AlphaCanonical,
    /// alpha followed by nothing or by something that is not a number: must be Err
    AlphaMalformed,
    /// more than 8 characters, not starting with alpha: must be Err
    TooLong,
    /// the statement does not settle it (empty text, spaces, `α05`, `α+5`, overflowing index): no panic only
    Grey,
}

pub fn classify(s: &str) -> Class {
    let n = s.chars().count();
    if let Some(tail) = s.strip_prefix('α') {
        if tail.is_empty() {
            return Class::AlphaMalformed;
        }
        if tail.chars().all(|c| c.is_ascii_digit()) {
            if (tail == "0" || !tail.starts_with('0')) && tail.parse::<usize>().is_ok() {
                return Class::AlphaCanonical;
            }
            return Class::Grey; // leading zeros, or too large for usize
        }
        // `+5` is accepted by usize::from_str: grey; everything else is malformed
        if let Some(rest) = tail.strip_prefix('+') {
            if !rest.is_empty() && rest.chars().all(|c| c.is_ascii_digit()) {
                return Class::Grey;
            }
        }
        return Class::AlphaMalformed;
    }
    if n == 0 || s.chars().any(|c| c == ' ') {
        return if n > 8 && !s.chars().any(|c| c == ' ') { Class::TooLong } else { Class::Grey };
    }
    if n > 8 {
        return Class::TooLong;
    }
    Class::Plain
}

pub fn check_text(acc: &mut Acc, s: &str) {
    acc.evaluations += 1;
    let class = classify(s);
    let r = guarded(|| Label::from_str(s).map_err(|e| e.to_string()));
    let replay = json!({"engine": "labelgen", "property": "C17", "text": s, "class": format!("{class:?}")});
    let r = match r {
        Err(e) => {
            acc.fail("C17", "label:parse-panics", format!("parsing the label text {s:?} panicked: {e}"), replay);
            return;
        }
        Ok(r) => r,
    };
    match class {
        Class::Plain | Class::AlphaCanonical => {
            acc.nontrivial += 1;
            match r {
                Err(e) => acc.fail("C17", "label:valid-text-rejected", format!("the label text {s:?} ({class:?}) was rejected: {e}"), replay),
                Ok(l) => {
                    let back = guarded(|| l.to_string()).unwrap_or_else(|_| "<panic>".to_string());
                    if back != s {
                        acc.fail("C17", "label:text-does-not-round-trip", format!("{s:?} parses to a label that prints as {back:?}"), replay.clone());
                    }
                    if class == Class::AlphaCanonical {
                        let n: usize = s.strip_prefix('α').unwrap().parse().unwrap();
                        if l != Label::Alpha(n) {
                            acc.fail("C17", "label:alpha-text-not-alpha", format!("{s:?} does not parse to Alpha({n})"), replay.clone());
                        }
                    }
                    // a second parse gives an equal label
                    if Label::from_str(s).ok() != Some(l) {
                        acc.fail("C17", "label:parse-not-stable", format!("{s:?} parses to two different labels"), replay.clone());
                    }
                    // distinct texts give distinct labels, compared with == in both directions against
                    // the neighbours of s: its proper prefixes, s with the last character changed, s extended
                    let chars: Vec<char> = s.chars().collect();
                    let mut neighbours: Vec<String> = (1..chars.len()).map(|k| chars[..k].iter().collect()).collect();
                    for c in ['a', 'b', 'ρ', '1'] {
                        let mut t = chars.clone();
                        if t.last() != Some(&c) {
                            *t.last_mut().unwrap() = c;
                            neighbours.push(t.iter().collect());
                        }
                        let mut e = chars.clone();
                        e.push(c);
                        neighbours.push(e.iter().collect());
                    }
                    for t in neighbours {
                        if t == s || !matches!(classify(&t), Class::Plain | Class::AlphaCanonical) {
                            continue;
                        }
                        if let Ok(Ok(o)) = guarded(|| Label::from_str(&t).map_err(|e| e.to_string())) {
                            if guarded(|| l == o || o == l) != Ok(false) {
                                acc.fail("C17", "label:distinct-texts-equal-labels", format!("the distinct texts {s:?} and {t:?} give labels that compare equal"), replay);
                                break;
                            }
                        }
                    }
                }
            }
        }
        Class::AlphaMalformed | Class::TooLong => {
            acc.nontrivial += 1;
            if let Ok(l) = r {
                let sig = if class == Class::TooLong { "label:too-long-text-accepted" } else { "label:malformed-index-accepted" };
                acc.fail("C17", sig, format!("the text {s:?} ({class:?}) must be rejected but parses to a label printing as {:?}", l.to_string()), replay);
            }
        }
        Class::Grey => acc.bump("grey_texts", 1),
    }
}

pub fn check_value(acc: &mut Acc, l: Label) {
    acc.evaluations += 1;
    acc.nontrivial += 1;
    let desc = describe(&l);
    let replay = json!({"engine": "labelgen", "property": "C17", "value": desc});
    let txt = match guarded(|| l.to_string()) {
        Ok(t) => t,
        Err(e) => {
            acc.fail("C17", "label:print-panics", format!("printing {desc} panicked: {e}"), replay);
            return;
        }
    };
    match guarded(|| Label::from_str(&txt).map_err(|e| e.to_string())) {
        Err(e) => acc.fail("C17", "label:parse-panics", format!("parsing {txt:?} (printed from {desc}) panicked: {e}"), replay),
        Ok(Err(e)) => acc.fail("C17", "label:value-does-not-round-trip", format!("{desc} prints as {txt:?}, which is rejected: {e}"), replay),
        Ok(Ok(p)) => {
            if p != l {
                let sig = match l {
                    Label::Greek(_) => "label:greek-value-does-not-round-trip",
                    Label::Alpha(_) => "label:alpha-value-does-not-round-trip",
                    Label::Str(_) => "label:str-value-does-not-round-trip",
                };
                acc.fail("C17", sig, format!("{desc} prints as {txt:?}, which parses to the different label {}", describe(&p)), replay.clone());
            }
            // an edge bound under the parsed name is found under the name built directly, and vice versa
            let ok = guarded(|| {
                let mut g: Sodg<2> = Sodg::empty(3);
                g.add(0);
                g.add(1);
                g.add(2);
                g.bind(0, 1, p);
                g.bind(2, 1, l);
                (g.kid(0, l), g.kid(2, p))
            });
            if ok != Ok((Some(1), Some(1))) {
                acc.fail("C17", "label:edge-not-found-under-same-name", format!("an edge bound under {txt:?} parsed / built directly as {desc} is not found under the other: {ok:?}"), replay);
            }
        }
    }
}

pub fn describe(l: &Label) -> String {
    match l {
        Label::Greek(c) => format!("Greek({c:?})"),
        Label::Alpha(n) => format!("Alpha({n})"),
        Label::Str(a) => format!("Str({:?})", a.iter().collect::<String>()),
    }
}

fn nth_string(alphabet: &[char], len: usize, mut idx: usize) -> String {
    let mut s = String::new();
    for _ in 0..len {
        s.push(alphabet[idx % alphabet.len()]);
        idx /= alphabet.len();
    }
    s
}

fn canonical_values(quick: bool) -> Vec<Label> {
    let mut v = vec![];
    for c in SIGMA {
        if c != 'α' && c != ' ' {
            v.push(Label::Greek(c));
        }
    }
    for c in ['x', 'σ', 'π', 'Я', '€', '😀', '.', '#'] {
        v.push(Label::Greek(c));
    }
    let mut n: usize = 1;
    loop {
        for x in [n.saturating_sub(1), n, n.saturating_add(1)] {
            v.push(Label::Alpha(x));
        }
        match n.checked_mul(10) {
            Some(m) => n = m,
            None => break,
        }
    }
    v.push(Label::Alpha(0));
    v.push(Label::Alpha(usize::MAX));
    v.push(Label::Alpha(usize::MAX - 1));
    // Str of 2..=8 non-space characters not starting with alpha
    let max2 = if quick { 6 } else { 8 };
    for len in 2..=max2 {
        let total = SIGMA2.len().pow(len as u32);
        for i in 0..total {
            let s = nth_string(&SIGMA2, len, i);
            if !s.starts_with('α') {
                v.push(crate::menu::str_label(&s));
            }
        }
    }
    let sig: Vec<char> = SIGMA.iter().copied().filter(|c| *c != ' ').collect();
    for len in 2..=(if quick { 3 } else { 4 }) {
        let total = sig.len().pow(len as u32);
        for i in 0..total {
            let s = nth_string(&sig, len, i);
            if !s.starts_with('α') {
                v.push(crate::menu::str_label(&s));
            }
        }
    }
    v
}

pub fn run_c17(tier: &str) -> Outcome {
    let t0 = Instant::now();
    let quick = crate::props::quick(tier);
    let (max1, max2) = if quick { (4usize, 8usize) } else { (5usize, 10usize) };
    // (alphabet, length) blocks, each enumerated completely
    let mut blocks: Vec<(&[char], usize, usize)> = vec![];
    for len in 0..=max1 {
        blocks.push((&SIGMA, len, SIGMA.len().pow(len as u32)));
    }
    for len in 0..=max2 {
        blocks.push((&SIGMA2, len, SIGMA2.len().pow(len as u32)));
    }
    for len in 1..=(if quick { 4 } else { 5 }) {
        blocks.push((&SIGMA3, len, SIGMA3.len().pow(len as u32)));
    }
    // plus alpha + digits texts up to and beyond usize
    let mut starts = vec![0usize];
    for b in &blocks {
        starts.push(starts.last().unwrap() + b.2);
    }
    let total = *starts.last().unwrap();
    let mut acc = super::par_cases(total, |i, acc| {
        let bi = starts.partition_point(|s| *s <= i) - 1;
        let (alpha, len, _) = blocks[bi];
        let s = nth_string(alpha, len, i - starts[bi]);
        if i % 4096 == 0 {
            crate::inflight::begin_case(|| json!({"engine": "labelgen", "property": "C17", "text": s, "kind": "crash-or-hang", "tags": ["C17"]}));
        }
        check_text(acc, &s);
        if i % 100_003 == 0 {
            acc.sample(json!({"text": s, "class": format!("{:?}", classify(&s))}));
        }
    });
    for extra in [
        "α", "α0", "α1", "α9", "α10", "α00", "α01", "α-1", "α+1", "α1a", "αa", "α ", "α 1", "α1 ", "αα", "α18446744073709551615", "α18446744073709551616", "α99999999999999999999999", "α12345678", "α123456789",
        "abcdefgh", "abcdefghi", "ρρρρρρρρ", "ρρρρρρρρρ", "𝜑𝜑𝜑𝜑𝜑𝜑𝜑𝜑", "𝜑𝜑𝜑𝜑𝜑𝜑𝜑𝜑𝜑", "a", "ρ", "𝜑", "+", "hello", "x", "Δ", "1", "12", "1α", "aα1",
    ] {
        check_text(&mut acc, extra);
        acc.sample(json!({"text": extra, "class": format!("{:?}", classify(extra))}));
    }
    let values = canonical_values(quick);
    let vacc = super::par_cases(values.len(), |i, acc| {
        check_value(acc, values[i]);
        if i % 20_011 == 0 {
            acc.sample(json!({"value": describe(&values[i])}));
        }
    });
    acc.bump("texts", acc.evaluations);
    acc.bump("canonical_values", values.len() as u64);
    acc.merge(vacc);
    let rule = format!(
        "every string of length 0..={max1} over {{a Z 7 0 + - _ α ρ φ Δ 𝜑 space}} and of length 0..={max2} over {{a ρ α 5 𝜑}} and of length 1..=4 (thorough 5) over look-alikes of the alpha sign and of digits {{α 𝛼 ɑ ⍺ а Α 5 ٣ ５ x 0}} plus boundary texts; every canonical value Greek(c), Alpha(n) at every decimal-length boundary up to usize::MAX, Str of 2..=8 characters over the small and 2..={} over the large alphabet. A text is non-trivial when the statement settles it (valid: must round-trip; too long / malformed index: must be Err); distinctness is checked with == in both directions against each valid text's neighbours (proper prefixes, last character changed, one character appended) in addition to the round trip",
        if quick { 3 } else { 4 }
    );
    super::outcome("C17", tier, "exploration", &rule, acc, true, json!({}), t0.elapsed().as_secs_f64(), vec!["reading of the statement: 'longer than 8 characters' applies to texts that do not start with α (Alpha(n) must round-trip for every n); α05, α+5, empty text and texts with spaces are not settled by the statement".to_string()], vec![])
}

pub fn replay(v: &Value) -> i32 {
    let mut acc = Acc::default();
    if let Some(t) = v["text"].as_str() {
        check_text(&mut acc, t);
    } else if let Some(d) = v["value"].as_str() {
        // rebuild the value from its description
        let l = if let Some(r) = d.strip_prefix("Greek('") {
            r.chars().next().map(Label::Greek)
        } else if let Some(r) = d.strip_prefix("Alpha(") {
            r.trim_end_matches(')').parse().ok().map(Label::Alpha)
        } else if let Some(r) = d.strip_prefix("Str(\"") {
            let s: String = r.trim_end_matches("\")").chars().filter(|c| *c != ' ').collect();
            Some(crate::menu::str_label(&s))
        } else {
            None
        };
        match l {
            Some(l) => check_value(&mut acc, l),
            None => return 2,
        }
    }
    for f in &acc.failures {
        println!("  {}", f.summary);
    }
    if acc.fail_total > 0 {
        println!("REPRODUCED property=C17");
        1
    } else {
        println!("NOT REPRODUCED property=C17");
        0
    }
}
