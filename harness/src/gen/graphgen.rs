//! GRAPHGEN: every small digraph, built through add/bind on the real code;
//! serves C13 (slice), C18 (exports) and C20 (inspect/Debug/v_print).

use super::Acc;
use crate::hx::{Finding, HxCfg};
use crate::menu::lab;
use crate::model::{Model, Op};
use crate::probes;
use crate::real::guarded;
use serde::{Deserialize, Serialize};
use serde_json::{json, Value};
use sodg::Sodg;
use std::collections::BTreeMap;

#[derive(Clone, Debug, Serialize, Deserialize)]
pub struct GraphCase {
    pub n: usize,
    pub cap: usize,
    pub ops: Vec<Op>,
    pub what: String,
}

/// digraph no. `code` on `n` vertices with `l` labels: digit (v, a) in base n:
/// 0 = no edge, k = edge to the k-th other vertex.
pub fn digraph_ops(n: usize, l: usize, mut code: usize, reversed: bool, interleaved: bool, data: &[Option<u8>], ids: &[usize]) -> Vec<Op> {
    let mut edges = vec![];
    for v in 0..n {
        for a in 0..l {
            let d = code % n;
            code /= n;
            if d > 0 {
                let others: Vec<usize> = (0..n).filter(|x| *x != v).collect();
                edges.push((v, others[d - 1], a as u8));
            }
        }
    }
    let mut ops = vec![];
    let order: Vec<usize> = if reversed { (0..n).rev().collect() } else { (0..n).collect() };
    for v in &order {
        ops.push(Op::Add(ids[*v]));
    }
    if reversed {
        edges.reverse();
    }
    if interleaved {
        let (even, odd): (Vec<_>, Vec<_>) = edges.iter().copied().enumerate().partition(|(i, _)| i % 2 == 0);
        edges = even.into_iter().chain(odd).map(|(_, e)| e).collect();
    }
    for (f, t, a) in edges {
        ops.push(Op::Bind(ids[f], ids[t], a));
    }
    for v in 0..n {
        if let Some(d) = data.get(v).copied().flatten() {
            ops.push(Op::Put(ids[v], d));
        }
    }
    ops
}

/// Build the case on the real code and the model; None if outside the limits or diverging.
pub fn build<const N: usize>(c: &GraphCase) -> Option<(Sodg<N>, Model)> {
    let mut g: Sodg<N> = Sodg::empty(c.cap);
    let mut m = Model::new(c.cap, N, false);
    for op in &c.ops {
        if !m.enabled(op, 0) {
            return None;
        }
        crate::hx::step_nocheck(&mut g, &mut m, op).ok()?;
    }
    if !crate::hx::compare_obs(&g, &m, &[]).is_empty() {
        return None; // the graph itself is not what the calls say: C01-C03 judge that
    }
    Some((g, m))
}

fn report(acc: &mut Acc, prop: &str, c: &GraphCase, fs: Vec<Finding>) {
    for f in fs {
        if f.tags.contains(&leak(prop)) {
            acc.fail(prop, &format!("graph:{}", f.kind), format!("[{}] {} (graph: {})", f.kind, f.detail, crate::model::hist_text(&c.ops)), json!({"engine": "graphgen", "property": prop, "case": c, "kind": f.kind}));
        }
    }
}

fn leak(s: &str) -> &'static str {
    match s {
        "C13" => "C13",
        "C18" => "C18",
        "C20" => "C20",
        "C19" => "C19",
        _ => "?",
    }
}

/// slice with every subset of the edge set as predicate, every start, every drain order
pub fn slices_all_subsets<const N: usize>(acc: &mut Acc, c: &GraphCase, g: &Sodg<N>, m: &Model, all_orders: bool) {
    let labels: Vec<u8> = (0..8).collect();
    let edges: Vec<(usize, u8)> = m.present.iter().flat_map(|(v, mv)| mv.edges.iter().map(|(l, _)| (*v, *l))).collect();
    let snap = g.verif_snapshot();
    for v in m.keys() {
        if m.reachable_present(v).is_none_or(|r| r.len() > 14) {
            continue;
        }
        // small graphs: every subset of the edge set; wide graphs: all, none, every single edge
        // rejected, every single edge accepted, and alternating subsets
        let e = edges.len();
        let subsets: Vec<u64> = if e <= 8 {
            (0..(1u64 << e)).collect()
        } else {
            let full = if e >= 64 { u64::MAX } else { (1u64 << e) - 1 };
            let mut v = vec![full, 0, 0x5555_5555_5555_5555 & full, 0xAAAA_AAAA_AAAA_AAAA & full];
            for i in 0..e.min(64) {
                v.push(full & !(1u64 << i));
                v.push(1u64 << i);
            }
            v
        };
        for subset in subsets {
            let accepted = |f: usize, _t: usize, a: u8| edges.iter().position(|e| *e == (f, a)).is_some_and(|i| i < 64 && subset >> i & 1 == 1);
            let mut fs: Vec<Finding> = vec![];
            let runs = probes::for_each_drain_order(if all_orders { 100_000 } else { 1 }, || {
                acc.evaluations += 1;
                let r = guarded(|| g.slice_some(v, |f, t, a| (0..=255u8).find(|i| lab(*i) == a).is_some_and(|li| accepted(f, t, li))));
                match r {
                    Err(e) => {
                        fs.push(Finding::new("slice-panic", &["C13"], format!("slice_some at ν{v} with the accepted edge subset {subset:#b} panicked: {e}")));
                        false
                    }
                    Ok(Err(e)) => {
                        fs.push(Finding::new("slice-error", &["C13"], format!("slice_some at ν{v} returned Err: {e:#}")));
                        false
                    }
                    Ok(Ok(s)) => {
                        let n0 = fs.len();
                        probes::judge_slice(&format!("slice_some at ν{v} accepting the edge subset {subset:#b} of {edges:?}"), &s, m, v, &labels, &accepted, &mut fs);
                        fs.len() == n0
                    }
                }
            });
            acc.bump("drain_orders_enumerated", runs as u64);
            if !fs.is_empty() {
                report(acc, "C13", c, fs);
                return;
            }
        }
        // plain slice()
        acc.evaluations += 1;
        if let Ok(Ok(s)) = guarded(|| g.slice(v)) {
            let mut fs = vec![];
            probes::judge_slice(&format!("slice at ν{v}"), &s, m, v, &labels, &|_, _, _| true, &mut fs);
            report(acc, "C13", c, fs);
        } else {
            report(acc, "C13", c, vec![Finding::new("slice-panic", &["C13"], format!("slice at ν{v} failed"))]);
        }
    }
    if g.verif_snapshot() != snap {
        report(acc, "C13", c, vec![Finding::new("slice-changed-source", &["C13"], "the source graph changed while it was sliced".to_string())]);
    }
}

/// C19: for every start vertex and every subset of the edges as the accepting predicate (up to 6
/// edges; above: a few subsets), the slice is the same under every drain order of the work-list.
pub fn slices_order_independent<const N: usize>(acc: &mut Acc, g: &Sodg<N>, m: &Model, fs: &mut Vec<Finding>) {
    let edges: Vec<(usize, u8)> = m.present.iter().flat_map(|(v, mv)| mv.edges.iter().map(|(l, _)| (*v, *l))).collect();
    let e = edges.len();
    let subsets: Vec<u64> = if e <= 6 {
        (0..(1u64 << e)).collect()
    } else {
        let full = if e >= 64 { u64::MAX } else { (1u64 << e) - 1 };
        vec![full, 0x5555_5555_5555_5555 & full, 0xAAAA_AAAA_AAAA_AAAA & full, full & !1, full & !2]
    };
    // small graphs: every order; wide ones: the first 24 orders from two start vertices
    let small = m.present.len() <= 4;
    let limit = if small { 5000 } else { 24 };
    for v in m.keys().into_iter().take(if small { 4 } else { 2 }) {
        // (also from vertices that reach a collected one: whatever slice() does there, it does it every time)
        if m.reachable_present(v).is_some_and(|r| r.len() > 14) {
            continue;
        }
        for subset in &subsets {
            let accepted = |f: usize, a: u8| edges.iter().position(|e| *e == (f, a)).is_some_and(|i| i < 64 && subset >> i & 1 == 1);
            let mut first: Option<String> = None;
            let mut differs: Option<(String, String)> = None;
            let runs = probes::for_each_drain_order(limit, || {
                acc.evaluations += 1;
                let r = guarded(|| g.slice_some(v, |f, _t, a| (0..=255u8).find(|i| lab(*i) == a).is_some_and(|li| accepted(f, li))).ok().map(|s| probes::observe_all(&s, false)));
                let obs = match r {
                    Ok(Some(o)) => o,
                    Ok(None) => "Err".to_string(),
                    Err(e) => format!("panic: {e}"),
                };
                match &first {
                    None => {
                        first = Some(obs);
                        true
                    }
                    Some(f) if *f == obs => true,
                    Some(f) => {
                        differs = Some((f.clone(), obs));
                        false
                    }
                }
            });
            acc.bump("slice_drain_orders_compared", runs as u64);
            if let Some((a, b)) = differs {
                let d = a.lines().zip(b.lines()).find(|(x, y)| x != y).map(|(x, y)| format!("`{x}` vs `{y}`")).unwrap_or_else(|| "different lengths".to_string());
                fs.push(Finding::new("slice-depends-on-drain-order", &["C19"], format!("slice_some at ν{v} accepting the edge subset {subset:#b} of {edges:?} gives different slices depending on the order in which its work-list (a hash set) is drained: {d}")));
                return;
            }
        }
    }
}

pub fn check_case(acc: &mut Acc, prop: &str, c: &GraphCase, cfg: &HxCfg, all_orders: bool) {
    crate::inflight::begin_case(|| json!({"engine": "graphgen", "property": prop, "case": c, "kind": "crash-or-hang", "tags": [prop]}));
    crate::with_n!(c.n, N, {
        let Some((g, m)) = build::<N>(c) else {
            acc.bump("cases_outside_limits_or_diverging", 1);
            return;
        };
        acc.nontrivial += 1;
        let mut counters: BTreeMap<&'static str, u64> = BTreeMap::new();
        match prop {
            "C19" => {
                // run-to-run (fresh hash seeds) and across configurations: every observable, incl.
                // every slice with the grouping of its vertices, must be identical
                let base = probes::trace_in_fresh_thread::<N>(c.cap, &c.ops);
                acc.evaluations += 4;
                let mut fs = vec![];
                for round in 0..2 {
                    probes::unrelated_calls::<N>(round == 0);
                    if probes::trace_of::<N>(c.cap, &c.ops) != base {
                        fs.push(Finding::new("rerun-differs", &["C19"], format!("building the same graph again (round {}) gives a different answer", round + 2)));
                        break;
                    }
                }
                let other = probes::trace_of::<16>(256.max(c.cap), &c.ops);
                if fs.is_empty() && other != base {
                    fs.push(Finding::new("configuration-changes-answer", &["C19"], format!("Sodg<{}> with capacity {} and Sodg<16> with capacity 256 answer differently", c.n, c.cap)));
                }
                // slice_some() with a predicate: the order in which its work-list (a hash set) is drained
                // is the one place where the hash seed reaches control flow; every order is enumerated
                // through the hook, and all of them must give the same slice (vertices, edges, data, grouping)
                if fs.is_empty() {
                    slices_order_independent(acc, &g, &m, &mut fs);
                }
                report(acc, prop, c, fs);
            }
            "C13" => slices_all_subsets(acc, c, &g, &m, all_orders),
            "C18" => {
                let mut fs = vec![];
                acc.evaluations += 1;
                let ops = c.ops.clone();
                probes::exports_probe(cfg, &g, &m, &|| ops.clone(), &mut fs);
                report(acc, prop, c, fs);
            }
            _ => {
                let mut fs = vec![];
                acc.evaluations += m.present.len() as u64;
                probes::texts_probe(&g, &m, &mut fs, &mut counters);
                report(acc, prop, c, fs);
            }
        }
        for (k, v) in counters {
            acc.bump(k, v);
        }
    });
}

/// Wide shapes on Sodg<16>: chains, stars, bipartite, cycles on 12-14 vertices, fans.
pub fn wide_cases() -> Vec<GraphCase> {
    let mut out = vec![];
    let mut push = |what: String, ops: Vec<Op>| out.push(GraphCase { n: 16, cap: 20, ops, what });
    // trees of 2 and 3 levels whose root keeps an edge to a collected vertex (a second group, linked by
    // a cross-group edge, then collected): several vertices of one level have kids still to be found
    for (kids, levels) in [(2usize, 2usize), (3, 2), (2, 3), (4, 3)] {
        let mut ops = vec![Op::Add(0)];
        let mut level: Vec<usize> = vec![0];
        let mut next = 1usize;
        let mut binds = vec![];
        for l in 0..levels {
            let mut below = vec![];
            for p in &level {
                let fan = if l == 0 { kids } else { 1 };
                for k in 0..fan {
                    ops.push(Op::Add(next));
                    binds.push(Op::Bind(*p, next, 10 + k as u8));
                    below.push(next);
                    next += 1;
                }
            }
            level = below;
        }
        ops.extend(binds);
        ops.extend([Op::Add(18), Op::Add(19), Op::Bind(18, 19, 0), Op::Bind(0, 18, 9), Op::Put(19, 0), Op::Data(19)]);
        push(format!("tree of {levels} levels under a root with {kids} kids, the root keeps an edge to a collected vertex"), ops);
    }
    for n in [12usize, 13, 14] {
        for rev in [false, true] {
            let order: Vec<usize> = if rev { (0..n).rev().collect() } else { (0..n).collect() };
            let adds: Vec<Op> = order.iter().map(|v| Op::Add(*v)).collect();
            // chain and cycle
            let mut chain = adds.clone();
            for i in &order {
                if i + 1 < n {
                    chain.push(Op::Bind(*i, i + 1, 0));
                }
            }
            push(format!("chain of {n}{}", if rev { " (reversed insertion)" } else { "" }), chain.clone());
            let mut cycle = chain;
            cycle.push(Op::Bind(n - 1, 0, 1));
            push(format!("cycle of {n}{}", if rev { " (reversed insertion)" } else { "" }), cycle);
            // star: 0 -> everyone, under distinct labels
            let mut star = adds.clone();
            for i in &order {
                if *i > 0 {
                    star.push(Op::Bind(0, *i, 7 + *i as u8));
                }
            }
            push(format!("star of {n}{}", if rev { " (reversed insertion)" } else { "" }), star);
            // complete bipartite: 3 sources x (n-3) sinks
            let mut bip = adds.clone();
            for s in 0..3 {
                for t in 3..n {
                    bip.push(Op::Bind(s, t, 7 + t as u8));
                }
            }
            push(format!("bipartite 3x{}{}", n - 3, if rev { " (reversed insertion)" } else { "" }), bip);
        }
    }
    // a chain of 20 vertices (more than one group can hold): two groups and a cross-group edge
    for rev in [false, true] {
        let n = 20usize;
        let mut ops: Vec<Op> = (0..n).map(Op::Add).collect();
        let mut edges: Vec<usize> = (0..15).collect(); // 0->1 ... 14->15 : one group of 16
        edges.extend(16..19); // 16->17 ... 18->19 : a second group
        if rev {
            edges.reverse();
        }
        for i in edges {
            ops.push(Op::Bind(i, i + 1, 0));
        }
        ops.push(Op::Bind(15, 16, 1)); // both grouped: no group changes
        ops.push(Op::Bind(19, 0, 1)); // and back to the start
        out.push(GraphCase { n: 2, cap: 24, ops, what: format!("chain of 20 across two groups{}", if rev { " (reversed insertion)" } else { "" }) });
    }
    let mut push = |what: String, ops: Vec<Op>| out.push(GraphCase { n: 16, cap: 20, ops, what });
    // fans: one vertex with k differently labelled edges onto 1, 2 or 13 targets
    for k in 1..=16usize {
        for targets in [1usize, 2, 13] {
            let mut ops: Vec<Op> = (0..=targets).map(Op::Add).collect();
            for e in 0..k {
                ops.push(Op::Bind(0, 1 + e % targets, 20 + e as u8));
            }
            // and a way back, so that the start is reached again
            ops.push(Op::Bind(1, 0, 0));
            push(format!("fan of {k} edges onto {targets} targets"), ops);
        }
    }
    out
}

pub fn run(prop: &'static str, tier: &str) -> (Acc, String) {
    let quick = crate::props::quick(tier);
    let nmax: usize = if quick { 3 } else { 4 };
    let mut cases: Vec<GraphCase> = vec![];
    let nmax = if prop == "C18" { nmax } else { 4 };
    for n in 1..=nmax {
        // 4 vertices are needed for two groups to exist side by side; quick uses one label there
        let l = if n == 4 && quick { 1usize } else { 2usize };
        let total = n.pow((l * n) as u32);
        for code in 0..total {
            for (rev, inter) in [(false, false), (true, false), (false, true)] {
                if n == 4 && prop != "C13" && prop != "C19" && rev {
                    continue;
                }
                if inter && n < 4 {
                    continue; // with fewer than 4 vertices the order cannot change the grouping
                }
                // data placements matter for the exports only
                let placements: Vec<Vec<Option<u8>>> = if prop == "C18" && n <= 3 {
                    (0..5usize.pow(n as u32)).map(|mut k| (0..n).map(|_| { let d = k % 5; k /= 5; [None, Some(3u8), Some(1), Some(2), Some(6)][d] }).collect()).collect()
                } else if prop == "C18" {
                    vec![vec![None; n], (0..n).map(|i| Some([3u8, 1, 2, 6][i % 4])).collect()]
                } else {
                    vec![vec![None; n]]
                };
                for data in placements {
                    let ids: Vec<usize> = if code % 2 == 0 { (0..n).collect() } else { (0..n).map(|i| 2 * i + 1).collect() };
                    cases.push(GraphCase { n: 2, cap: 2 * n + 2, ops: digraph_ops(n, l, code, rev, inter, &data, &ids), what: format!("digraph {code} on {n} vertices") });
                }
            }
        }
    }
    if quick && (prop == "C13" || prop == "C19") {
        // 4 vertices with BOTH labels where the last vertex is a sink (4096 graphs): diamonds, two
        // parents of one vertex on the same level, a vertex reached over two edges of different fate
        for code in 0..4096 {
            let ids: Vec<usize> = if code % 2 == 0 { (0..4).collect() } else { (0..4).map(|i| 2 * i + 1).collect() };
            cases.push(GraphCase { n: 2, cap: 10, ops: digraph_ops(4, 2, code, false, code % 3 == 1, &[None; 4], &ids), what: format!("digraph {code} on 4 vertices, 2 labels, the last vertex a sink") });
        }
    }
    let small = cases.len();
    cases.extend(wide_cases());
    if prop == "C18" {
        // ids of one, two and three digits: ascending order is numeric, not textual
        for rev in [false, true] {
            let mut ids = vec![10usize, 2, 0, 100, 9, 11, 1, 20, 99, 101];
            if rev {
                ids.reverse();
            }
            let mut ops: Vec<Op> = ids.iter().map(|v| Op::Add(*v)).collect();
            ops.extend([Op::Bind(2, 10, 0), Op::Bind(10, 100, 1), Op::Bind(9, 11, 0), Op::Bind(100, 2, 0), Op::Put(20, 3), Op::Put(10, 1)]);
            cases.push(GraphCase { n: 2, cap: 128, ops, what: format!("ids of one, two and three digits{}", if rev { " (reversed insertion)" } else { "" }) });
        }
    }
    let cfg = HxCfg::new(prop, "graphgen", 2, 8, &[], &[0, 1], &[]);
    let mut sweep_acc = Acc::default();
    if prop == "C19" {
        sweep_acc = capacity_sweep(quick);
        sweep_acc.merge(big_data_sweep());
    }
    let acc = super::par_cases(cases.len(), |i, acc| {
        let c = &cases[i];
        // all drain orders for the small graphs; the wide ones have up to 13! orders: default order + the enumeration cap
        check_case(acc, prop, c, &cfg, i < small);
        if i % 9973 == 0 || (i >= small && i % 40 == 0) {
            acc.sample(json!({"graph": crate::model::hist_text(&c.ops), "what": c.what}));
        }
    });
    let mut acc = acc;
    acc.merge(sweep_acc);
    let rule = format!(
        "GRAPHGEN: every digraph on 1..={nmax} vertices in which each vertex has, per label of {{α0, x}}, no edge or an edge to one of the other vertices ({} graphs incl. all cyclic shapes and shared targets), (quick tier of C13 and C19: on 4 vertices one label, plus the 4096 two-label graphs whose last vertex is a sink) built through add/bind in up to three insertion orders (ascending, reversed, and - from 4 vertices on - every other edge first, so that groups form separately before an edge links them) on dense and on gapped ids{}{}",
        small,
        match prop {
            "C13" => "; for every start vertex: slice() and slice_some() with EVERY subset of the edge set as predicate, under EVERY drain order of slice's work-list (enumerated through the verif choice-point hook); plus wide shapes on Sodg<16> (chains, cycles, stars, bipartite graphs on 12-14 vertices, fans of 1..=16 labelled edges onto 1, 2 or 13 targets)",
            "C19" => "; PLUS a dense capacity sweep: small graphs on ids spread 2^k apart (0, 3, 3+2^k, 4+2^k for 2^k = 8..512) traced under EVERY capacity from the minimum that fits up to the minimum + 2^k + 8 (and 2049): all traces equal; PLUS a big-data sweep: add/bind/put/save/load with a datum of 0, 150 000, ... 4 500 000 bytes under 4 configurations (the image grows with N and the capacity, so size-dependent paths are crossed at different lengths): all traces equal; each graph is built three times in fresh objects (fresh hash seeds) and once as Sodg<16> with capacity 256: every public observable, incl. every slice with the grouping of its vertices as Debug shows it, must be identical",
            "C18" => "; with every placement of {no data, 1 byte, 9 bytes (heap), empty datum, 17 bytes} (n <= 3); plus wide shapes on Sodg<16> (12-20 vertices) and graphs on ids of one, two and three digits (0..101 in 128 slots); to_xml()/to_dot() parsed back and compared with the graph (ascending id order), and all graphs with equal content must give equal text",
            _ => "; inspect(v) for every vertex (parsed back into (source,label,target) triples: the edges of all reachable vertices, each exactly once), Debug, Display, v_print(v); plus wide shapes on Sodg<16>",
        },
        ""
    );
    (acc, rule)
}

/// C19: graphs on ids that lie a power of two apart, traced under every capacity of a dense range.
pub fn capacity_sweep(quick: bool) -> Acc {
    let mut jobs: Vec<(Vec<Op>, usize, Vec<usize>)> = vec![];
    for k in 3..=9u32 {
        let d = 1usize << k;
        let ids = [0usize, 3, 3 + d, 4 + d];
        let min = 5 + d;
        // three shapes: a fan from 0, a chain, a cycle through all four; data on the far ones
        let shapes: Vec<Vec<(usize, usize, u8)>> = vec![
            vec![(0, 1, 0), (0, 2, 1), (2, 3, 0)],
            vec![(0, 1, 0), (1, 2, 0), (2, 3, 0)],
            vec![(0, 2, 0), (2, 1, 0), (1, 3, 0), (3, 0, 1)],
        ];
        for sh in shapes {
            let mut ops: Vec<Op> = ids.iter().map(|v| Op::Add(*v)).collect();
            for (a, b, l) in &sh {
                ops.push(Op::Bind(ids[*a], ids[*b], *l));
            }
            ops.push(Op::Put(ids[3], 1));
            ops.push(Op::Put(ids[1], 0));
            ops.push(Op::NextId);
            let step = if quick && d >= 128 { 3 } else { 1 };
            let mut caps: Vec<usize> = (min..=min + d + 8).step_by(step).collect();
            caps.extend([min + d, 2 * d + 5, 2049]);
            caps.sort_unstable();
            caps.dedup();
            jobs.push((ops, min, caps));
        }
    }
    super::par_cases(jobs.len(), |i, acc| {
        let (ops, min, caps) = &jobs[i];
        let base = probes::trace_of::<2>(*min, ops);
        for cap in caps {
            acc.evaluations += 1;
            let t = if cap % 2 == 0 { probes::trace_of::<2>(*cap, ops) } else { probes::trace_of::<16>(*cap, ops) };
            if t != base {
                let c = GraphCase { n: 2, cap: *cap, ops: ops.clone(), what: format!("capacity sweep: capacity {cap} against {min}") };
                acc.fail("C19", "graph:capacity-changes-answer", format!("the same calls answer differently under capacity {cap} and capacity {min}: {}", crate::model::hist_text(ops)), json!({"engine": "graphgen", "property": "C19", "case": c, "kind": "capacity-changes-answer", "base_capacity": min}));
                break;
            }
        }
        acc.nontrivial += 1;
        acc.bump("capacity_sweep_graphs", 1);
        if i % 7 == 0 {
            acc.sample(json!({"capacity_sweep": crate::model::hist_text(ops), "capacities": format!("{}..={} and more", caps[0], caps[caps.len() - 1])}));
        }
    })
}

/// C19 with big data: the same four calls + save + load with a datum of 0, 150 000, 300 000 ...
/// 4 500 000 bytes, under four configurations. The image grows with the capacity and with N, so a
/// size-dependent path (a buffer, a limit) is crossed at a different datum length under each
/// configuration; the step (150 000) is smaller than the difference between the images of the smallest
/// and the biggest configuration (8192 slots: about 390 000 bytes more than 3 slots).
fn big_trace<const N: usize>(cap: usize, len: usize) -> String {
    guarded(|| {
        let mut g: Sodg<N> = Sodg::empty(cap);
        g.add(0);
        g.add(1);
        g.add(2);
        g.bind(0, 1, lab(0));
        let bytes: Vec<u8> = (0..len).map(|i| (i % 251) as u8).collect();
        g.put(1, &sodg::Hex::from_slice(&bytes));
        g.put(2, &sodg::Hex::from_slice(&[1, 2, 3]));
        let f = crate::real::thread_file("big");
        let saved = g.save(&f).is_ok();
        let loaded = Sodg::<N>::load(&f);
        let _ = std::fs::remove_file(&f);
        let mut t = format!("save ok={saved}; load ok={};", loaded.is_ok());
        if let Ok(mut l) = loaded {
            t.push_str(&format!(" keys={:?}; data(1) as put={}; data(2)={:?}; then keys={:?}", crate::real::keys_sorted(&l), l.data(1).map(|h| h.to_vec()) == Some(bytes), l.data(2).map(|h| h.to_vec()), crate::real::keys_sorted(&l)));
        }
        t
    })
    .unwrap_or_else(|_| "panic".to_string())
}

fn big_traces(len: usize) -> Vec<(String, String)> {
    vec![
        ("Sodg<2>, 3 slots".to_string(), big_trace::<2>(3, len)),
        ("Sodg<1>, 64 slots".to_string(), big_trace::<1>(64, len)),
        ("Sodg<16>, 256 slots".to_string(), big_trace::<16>(256, len)),
        ("Sodg<16>, 8192 slots".to_string(), big_trace::<16>(8192, len)),
    ]
}

pub fn big_data_sweep() -> Acc {
    let lens: Vec<usize> = (0..=30).map(|i| i * 150_000).collect();
    super::par_cases(lens.len(), |i, acc| {
        let ts = big_traces(lens[i]);
        acc.evaluations += ts.len() as u64;
        acc.nontrivial += 1;
        acc.bump("big_data_lengths", 1);
        if let Some((name, _)) = ts.iter().find(|(_, t)| *t != ts[0].1) {
            acc.fail("C19", "graph:big-data-changes-answer", format!("add, bind, put of {} bytes, save, load answer differently under {} and {name}: `{}` vs `{}`", lens[i], ts[0].0, ts[0].1, ts.iter().find(|(n, _)| n == name).unwrap().1), json!({"engine": "graphgen", "property": "C19", "kind": "big-data-changes-answer", "len": lens[i]}));
        }
    })
}

pub fn replay(v: &Value) -> i32 {
    if v["kind"].as_str() == Some("big-data-changes-answer") {
        let ts = big_traces(v["len"].as_u64().unwrap_or(0) as usize);
        for (n, t) in &ts {
            println!("{n}: {t}");
        }
        let differ = ts.iter().any(|(_, t)| *t != ts[0].1);
        println!("{}", if differ { "REPRODUCED property=C19" } else { "NOT REPRODUCED property=C19" });
        return i32::from(differ);
    }
    let prop = leak(v["property"].as_str().unwrap_or("C13"));
    if v["kind"].as_str() == Some("capacity-changes-answer") {
        let Ok(c) = serde_json::from_value::<GraphCase>(v["case"].clone()) else { return 2 };
        let min = v["base_capacity"].as_u64().unwrap_or(8) as usize;
        let (a, b) = (probes::trace_of::<2>(min, &c.ops), probes::trace_of::<2>(c.cap, &c.ops));
        println!("capacity {min} vs capacity {}: {}", c.cap, if a == b { "same answers" } else { "different answers" });
        return i32::from(a != b);
    }
    let Ok(c) = serde_json::from_value::<GraphCase>(v["case"].clone()) else { return 2 };
    let cfg = HxCfg::new(prop, "graphgen", 2, 8, &[], &[0, 1], &[]);
    let mut acc = Acc::default();
    println!("graph: {}", crate::model::hist_text(&c.ops));
    check_case(&mut acc, prop, &c, &cfg, true);
    for f in &acc.failures {
        println!("  {}", f.summary);
    }
    if acc.fail_total > 0 {
        println!("REPRODUCED property={prop}");
        1
    } else {
        println!("NOT REPRODUCED property={prop}");
        0
    }
}
