//! TREEGEN: C11 (merge of trees grafts without loss) and C12 (merge never
//! silently drops part of the right graph).

use super::Acc;
use crate::hx::compare_obs;
use crate::menu::{dat, dat_bytes, lab, lab_text};
use crate::model::{HTree, Model, Op};
use crate::real::guarded;
use crate::report::Outcome;
use serde::{Deserialize, Serialize};
use serde_json::{json, Value};
use sodg::Sodg;
use std::collections::BTreeSet;
use std::time::Instant;

/// A rooted labelled tree: node i > 0 hangs under `parent[i] < i` by label `label[i]`.
#[derive(Clone, Debug, PartialEq, Eq, Serialize, Deserialize)]
pub struct Shape {
    pub parent: Vec<usize>,
    pub label: Vec<u8>,
}

impl Shape {
    pub fn size(&self) -> usize {
        self.parent.len()
    }
    pub fn htree(&self, data: &[Option<u8>]) -> HTree {
        let mut kids = vec![vec![]; self.size()];
        for i in 1..self.size() {
            kids[self.parent[i]].push((self.label[i], i));
        }
        HTree { kids, data: data.to_vec() }
    }
}

/// All shapes with exactly n nodes over `labels` (sibling labels distinct).
pub fn shapes(n: usize, labels: &[u8]) -> Vec<Shape> {
    let mut out = vec![];
    fn rec(n: usize, labels: &[u8], cur: &mut Shape, out: &mut Vec<Shape>) {
        if cur.size() == n {
            out.push(cur.clone());
            return;
        }
        let i = cur.size();
        for p in 0..i {
            for l in labels {
                if (1..i).any(|j| cur.parent[j] == p && cur.label[j] == *l) {
                    continue;
                }
                cur.parent.push(p);
                cur.label.push(*l);
                rec(n, labels, cur, out);
                cur.parent.pop();
                cur.label.pop();
            }
        }
    }
    let mut cur = Shape { parent: vec![0], label: vec![0] };
    rec(n, labels, &mut cur, &mut out);
    out
}

/// data placement no. `mask` on a tree of n nodes; `base` makes the bytes distinct per side.
/// Even nodes get inline data, odd nodes heap data.
pub fn placement(n: usize, mask: usize, base: u8) -> Vec<Option<u8>> {
    (0..n).map(|i| if mask >> i & 1 == 1 { Some(if i % 2 == 0 { base + i as u8 } else { base + 50 + i as u8 }) } else { None }).collect()
}

/// the same placement, but the data-holding nodes hold the empty datum (zero bytes, yet a datum)
pub fn placement_empty(n: usize, mask: usize) -> Vec<Option<u8>> {
    (0..n).map(|i| if mask >> i & 1 == 1 { Some(2) } else { None }).collect()
}

#[derive(Clone, Copy, Debug, PartialEq, Eq, Serialize, Deserialize)]
pub enum IdPlan {
    Dense,
    Reversed,
    Gaps,
    /// ids 0 and 1 were used by a collected group before; g is built on 2..
    RecycledBelow,
    /// g is built on ids that were used by collected vertices before
    RecycledUnder,
}

pub const G_PLANS: [IdPlan; 5] = [IdPlan::Dense, IdPlan::Reversed, IdPlan::Gaps, IdPlan::RecycledBelow, IdPlan::RecycledUnder];

fn plan_ids(plan: IdPlan, n: usize) -> Vec<usize> {
    match plan {
        IdPlan::Dense | IdPlan::RecycledUnder => (0..n).collect(),
        IdPlan::Reversed => (0..n).rev().collect(),
        IdPlan::Gaps => (0..n).map(|i| 2 * i + 1).collect(),
        IdPlan::RecycledBelow => (0..n).map(|i| i + 2).collect(),
    }
}

/// The API calls that build the left graph.
pub fn build_ops(shape: &Shape, data: &[Option<u8>], plan: IdPlan, put_first: bool) -> (Vec<Op>, Vec<usize>) {
    let ids = plan_ids(plan, shape.size());
    let mut ops = vec![];
    match plan {
        IdPlan::RecycledBelow | IdPlan::RecycledUnder => {
            // a group on ids 0,1 (with an edge and data) lives and dies first
            ops.extend([Op::Add(0), Op::Add(1), Op::Bind(0, 1, 1), Op::Bind(1, 0, 2), Op::Put(1, 3), Op::Data(1)]);
        }
        _ => {}
    }
    for id in &ids {
        ops.push(Op::Add(*id));
    }
    if put_first {
        for i in 0..shape.size() {
            if let Some(d) = data[i] {
                ops.push(Op::Put(ids[i], d));
            }
        }
    }
    for i in 1..shape.size() {
        ops.push(Op::Bind(ids[shape.parent[i]], ids[i], shape.label[i]));
    }
    if !put_first {
        for i in 0..shape.size() {
            if let Some(d) = data[i] {
                ops.push(Op::Put(ids[i], d));
            }
        }
    }
    (ops, ids)
}

#[derive(Clone, Debug, Serialize, Deserialize)]
pub struct MergeCase {
    pub n: usize,
    pub cap: usize,
    pub g_shape: Shape,
    pub g_data: Vec<Option<u8>>,
    pub g_plan: IdPlan,
    pub g_put_first: bool,
    pub h_shape: Shape,
    pub h_data: Vec<Option<u8>>,
    /// id of h's node i
    pub h_ids: Vec<usize>,
    /// node of g that is `left`
    pub left_node: usize,
    /// read data of the right tree before the merge (it then holds read, "taken" data):
    /// every data-holding node but the last one (a single-vertex tree: its only node)
    #[serde(default)]
    pub h_reads: bool,
    /// read data of the LEFT tree before the merge, all holders but the last one (a single-vertex
    /// tree: its only one): the merge then meets vertices whose datum was already read
    #[serde(default)]
    pub g_reads: bool,
    /// quick tier: all read orders up to 3 holders (thorough: 4), rotations and their reversals above
    #[serde(default)]
    pub few_orders: bool,
}

fn permutations(v: &[usize]) -> Vec<Vec<usize>> {
    if v.len() <= 1 {
        return vec![v.to_vec()];
    }
    let mut out = vec![];
    for i in 0..v.len() {
        let mut rest = v.to_vec();
        let x = rest.remove(i);
        for mut p in permutations(&rest) {
            p.insert(0, x);
            out.push(p);
        }
    }
    out
}

fn fail(acc: &mut Acc, c: &MergeCase, sig: &str, what: String) {
    acc.fail("C11", sig, format!("{what} [left tree {:?} data {:?} ids {:?}{}; right tree {:?} data {:?} ids {:?}; left = node {}]", c.g_shape, c.g_data, c.g_plan, if c.g_put_first { ", put before bind" } else { "" }, c.h_shape, c.h_data, c.h_ids, c.left_node), json!({"engine": "treegen", "property": "C11", "case": c}));
}

/// Run one merge case on the real code against the model. Returns false if the case is outside the limits.
pub fn check_merge<const N: usize>(acc: &mut Acc, c: &MergeCase) -> bool {
    let (ops, gids) = build_ops(&c.g_shape, &c.g_data, c.g_plan, c.g_put_first);
    let mut g: Sodg<N> = Sodg::empty(c.cap);
    let mut m = Model::new(c.cap, N, true);
    for op in &ops {
        if crate::hx::step_nocheck(&mut g, &mut m, op).is_err() {
            return false; // building the operand failed: C01-C04 judge that, not C11
        }
    }
    if c.g_reads {
        let holders: Vec<usize> = (0..c.g_shape.size()).filter(|i| c.g_data[*i].is_some()).collect();
        let to_read: Vec<usize> = if c.g_shape.size() == 1 { holders.clone() } else { holders[..holders.len().saturating_sub(1)].to_vec() };
        if to_read.is_empty() {
            return false; // same as the variant without reads
        }
        for i in to_read {
            if !m.present.contains_key(&gids[i]) || crate::hx::step_nocheck(&mut g, &mut m, &Op::Data(gids[i])).is_err() {
                return false;
            }
        }
        let mut want: Vec<usize> = gids.clone();
        want.sort_unstable();
        if m.keys() != want {
            return false; // the reads collected part of the left tree: not a tree any more
        }
        acc.bump("merges_into_a_left_tree_holding_read_data", 1);
    }
    let left = gids[c.left_node];
    let h = c.h_shape.htree(&c.h_data);
    let impl_pos = g.verif_snapshot().next_v;
    let Some(need) = m.merge_plan(&h, left, impl_pos) else { return false };
    if compare_obs(&g, &m, &[0, 1, 2]).is_empty() {
        // operands agree with the model: the case is meaningful
    } else {
        return false;
    }
    let hcap = c.h_ids.iter().max().unwrap() + 2;
    let mut hg: Sodg<N> = crate::real::build_tree::<N>(&h, &c.h_ids, hcap);
    if c.h_reads {
        let holders: Vec<usize> = (0..h.size()).filter(|i| h.data[*i].is_some()).collect();
        let to_read: Vec<usize> = if h.size() == 1 { holders.clone() } else { holders[..holders.len().saturating_sub(1)].to_vec() };
        if to_read.is_empty() {
            return false; // same as the variant without reads
        }
        for i in to_read {
            if guarded(|| hg.data(c.h_ids[i])).is_err() {
                return false;
            }
        }
        // the right graph must still be the whole tree (a read must not have collected it)
        let mut want: Vec<usize> = c.h_ids.clone();
        want.sort_unstable();
        if guarded(|| crate::real::keys_sorted(&hg)).ok() != Some(want) {
            return false;
        }
        acc.bump("merges_of_a_right_tree_holding_read_data", 1);
    }
    let hsnap = hg.verif_snapshot();
    let before_keys = m.keys();
    acc.evaluations += 1;
    acc.nontrivial += 1;
    if need > 0 {
        acc.bump("merges_creating_vertices", 1);
    }
    if need < h.size() - 1 {
        acc.bump("merges_with_overlapping_paths", 1);
    }
    if m.present[&left].data.is_some() && h.data[0].is_some() {
        acc.bump(if m.present[&left].unread { "merges_overwriting_unread_datum_on_left" } else { "merges_overwriting_read_datum_on_left" }, 1);
    }
    acc.bump(if m.present[&left].group.is_some() { "merges_with_grouped_left" } else { "merges_with_ungrouped_left" }, 1);
    let r = guarded(|| g.merge(&hg, left, c.h_ids[0]).map_err(|e| format!("{e:#}")));
    match r {
        Err(e) => {
            fail(acc, c, "merge:panic", format!("merge() of a tree into a tree within the limits panicked: {e}"));
            return true;
        }
        Ok(Err(e)) => {
            fail(acc, c, "merge:err-on-trees", format!("merge() of a tree into a tree returned Err: {e}"));
            return true;
        }
        Ok(Ok(())) => {}
    }
    if hg.verif_snapshot() != hsnap {
        fail(acc, c, "merge:right-graph-changed", "merge() changed the right graph".to_string());
    }
    // the graft, applied to the model as the add/bind/put it stands for
    let mut errs = vec![];
    let gr = &g;
    let (map, fresh) = m.apply_merge(&h, left, &|gl, a| guarded(|| gr.kid(gl, lab(a))).ok().flatten(), &mut errs);
    for e in &errs {
        let sig = if e.contains("no edge") { "merge:path-missing" } else if e.contains("already present") { "merge:bound-to-present-vertex" } else { "merge:new-id-not-fresh" };
        fail(acc, c, sig, e.clone());
    }
    if !errs.is_empty() {
        return true;
    }
    if fresh.len() != need {
        fail(acc, c, "merge:wrong-number-of-new-vertices", format!("{} new vertices for {need} missing paths", fresh.len()));
    }
    let targets: BTreeSet<usize> = map.values().copied().collect();
    if targets.len() != map.len() {
        fail(acc, c, "merge:not-injective", format!("distinct vertices of the right tree landed on the same vertex: {map:?}"));
    }
    if fresh.iter().any(|id| *id < 2) && matches!(c.g_plan, IdPlan::RecycledBelow) {
        acc.bump("merges_with_new_vertices_on_recycled_ids", 1);
    }
    // everything g had is still there, nothing but what h demands was added
    let obs = compare_obs(&g, &m, &[0, 1, 2]);
    if let Some((kind, detail)) = obs.first() {
        let lost: Vec<usize> = before_keys.iter().copied().filter(|v| !guarded(|| g.keys()).unwrap_or_default().contains(v)).collect();
        let sig = if !lost.is_empty() { "merge:lost-vertices".to_string() } else { format!("merge:{kind}") };
        fail(acc, c, &sig, format!("after the merge the left graph is not the graft: {detail}"));
        return true;
    }
    // reads afterwards: data bytes and collections as if made by add/bind/put
    let holders: Vec<usize> = m.present.iter().filter(|(_, v)| v.data.is_some()).map(|(k, _)| *k).collect();
    let orders: Vec<Vec<usize>> = if holders.len() <= if c.few_orders { 3 } else { 4 } {
        permutations(&holders)
    } else {
        let mut o = vec![];
        for r in 0..holders.len() {
            let mut a = holders.clone();
            a.rotate_left(r);
            o.push(a.clone());
            a.reverse();
            o.push(a);
        }
        o
    };
    for order in orders {
        let Ok(mut gc) = guarded(|| g.clone()) else { break };
        let mut mc = m.clone();
        // the vertices without data are read too (first), they must answer None and change nothing
        let mut full: Vec<usize> = m.keys().into_iter().filter(|v| !holders.contains(v)).collect();
        full.extend(order.iter().copied());
        let mut done = vec![];
        for v in full {
            if !mc.present.contains_key(&v) {
                continue;
            }
            let got = guarded(|| gc.data(v).map(|x| x.to_vec()));
            let ex = mc.apply(&Op::Data(v));
            done.push(v);
            acc.bump("reads_after_merge", 1);
            let want = ex.data.unwrap().map(dat_bytes);
            match got {
                Err(e) => {
                    fail(acc, c, "merge:read-after-merge-panics", format!("after the merge, reading {done:?}: data({v}) panicked: {e}"));
                    return true;
                }
                Ok(got) => {
                    if got != want {
                        fail(acc, c, "merge:wrong-data-after-merge", format!("after the merge, reading {done:?}: data({v}) = {got:?} but the graft carries {want:?}"));
                        return true;
                    }
                }
            }
            let keys = guarded(|| crate::real::keys_sorted(&gc)).unwrap_or_default();
            if keys != mc.keys() {
                fail(acc, c, "merge:wrong-collection-after-merge", format!("after the merge, reading {done:?}: alive set {keys:?} but add/bind/put of the same graft would leave {:?}", mc.keys()));
                return true;
            }
        }
    }
    true
}

fn h_id_plans(n: usize) -> Vec<Vec<usize>> {
    vec![(0..n).collect(), (0..n).map(|i| i + 3).collect(), (0..n).rev().collect(), (0..n).map(|i| 40 + 7 * i).collect()]
}

/// The list of all merge cases of the tier (descriptor: indices; built lazily per index).
pub struct Space {
    pub g_trees: Vec<(Shape, Vec<Option<u8>>)>,
    pub h_trees: Vec<(Shape, Vec<Option<u8>>)>,
    pub variants: Vec<(IdPlan, bool, usize, bool, bool)>, // g id plan, put first, h id plan index, read h's data first, read g's data first
}

pub fn trees(max: usize, base: u8) -> Vec<(Shape, Vec<Option<u8>>)> {
    let mut out = vec![];
    for n in 1..=max {
        for s in shapes(n, &[0, 1, 2]) {
            for mask in 0..(1usize << n) {
                out.push((s.clone(), placement(n, mask, base)));
                if mask != 0 && n <= 3 {
                    out.push((s.clone(), placement_empty(n, mask)));
                    // left trees hold [k+1], right trees [k+1, 00] on the same node numbers: where the
                    // shapes overlap, the datum that arrives differs from the one there only by a trailing 00
                    out.push((s.clone(), (0..n).map(|i| if mask >> i & 1 == 1 { Some(if base < 110 { 200 + i as u8 } else { 220 + i as u8 }) } else { None }).collect()));
                }
                if mask != 0 && n <= 2 {
                    // heap data of different lengths on the two sides: left trees hold 17 bytes (or 4097),
                    // right trees 9 (or 255): where the shapes overlap a shorter heap datum replaces a longer one
                    out.push((s.clone(), (0..n).map(|i| if mask >> i & 1 == 1 { Some(if base < 110 { 6 } else { 1 }) } else { None }).collect()));
                }
                if mask != 0 && n == 1 {
                    // (single-vertex trees only: the subject never frees heap data, and every case with
                    // kilobytes of data leaks tens of kilobytes - millions of such cases exhaust the memory)
                    out.push((s.clone(), (0..n).map(|i| if mask >> i & 1 == 1 { Some(if base < 110 { 252 } else { 250 }) } else { None }).collect()));
                }
            }
        }
    }
    out
}

pub fn run_c11(tier: &str) -> Outcome {
    let t0 = Instant::now();
    let quick = crate::props::quick(tier);
    let (gmax, hmax) = if quick { (3, 3) } else { (4, 4) };
    let space = Space {
        g_trees: trees(gmax, 100),
        h_trees: trees(hmax, 120),
        variants: {
            let mut v = vec![];
            for (i, p) in G_PLANS.iter().enumerate() {
                for put_first in [false, true] {
                    // the full product in quick; in thorough the big sizes get a rotating subset
                    v.push((*p, put_first, i % 4, false, false));
                    v.push((*p, put_first, (i + 1) % 4, true, false));
                    v.push((*p, put_first, (i + 2) % 4, put_first, true));
                }
            }
            v
        },
    };
    let (ng, nh, nv) = (space.g_trees.len(), space.h_trees.len(), space.variants.len());
    let total = ng * nh * nv;
    let acc = super::par_cases_sliced(total, if quick { 1 } else { 12 }, |k, acc| {
        let (gi, rest) = (k / (nh * nv), k % (nh * nv));
        let (hi, vi) = (rest / nv, rest % nv);
        let (gs, gd) = &space.g_trees[gi];
        let (hs, hd) = &space.h_trees[hi];
        let (plan, put_first, hplan, h_reads, g_reads) = space.variants[vi];
        // thorough: the largest pairs get a rotating (deterministic) share of the 30 variants:
        // 7 vertices in total a fifth, 4 x 4 a twentieth
        if !quick && gs.size() + hs.size() == 7 && (gi + hi + vi) % 5 != 0 {
            return;
        }
        if !quick && gs.size() + hs.size() >= 8 && (gi + hi + vi) % 20 != 0 {
            return;
        }
        for left_node in 0..gs.size() {
            for n in [3usize, 16] {
                if n == 16 && (k + left_node) % 4 != 0 {
                    continue; // Sodg<16> on a quarter of the cases
                }
                let c = MergeCase {
                    n,
                    cap: gs.size() + hs.size() + 4,
                    g_shape: gs.clone(),
                    g_data: gd.clone(),
                    g_plan: plan,
                    g_put_first: put_first,
                    h_shape: hs.clone(),
                    h_data: hd.clone(),
                    h_ids: h_id_plans(hs.size())[hplan].clone(),
                    left_node,
                    h_reads,
                    g_reads,
                    few_orders: quick,
                };
                crate::inflight::begin_case(|| json!({"engine": "treegen", "property": "C11", "case": c, "kind": "crash-or-hang", "tags": ["C11"]}));
                let counted = if n == 3 { check_merge::<3>(acc, &c) } else { check_merge::<16>(acc, &c) };
                if !counted {
                    acc.bump("cases_outside_the_limits", 1);
                } else if k % 50_021 == 0 {
                    acc.sample(json!(c));
                }
            }
        }
    });
    let mut machinery = vec![];
    for k in ["merges_creating_vertices", "merges_with_overlapping_paths", "merges_overwriting_unread_datum_on_left", "merges_with_grouped_left", "merges_with_ungrouped_left", "merges_with_new_vertices_on_recycled_ids", "merges_of_a_right_tree_holding_read_data", "merges_into_a_left_tree_holding_read_data", "reads_after_merge"] {
        if acc.counters.get(k).copied().unwrap_or(0) == 0 && acc.fail_total == 0 {
            machinery.push(format!("vacuous run: situation '{k}' never occurred"));
        }
    }
    let rule = format!("every pair of labelled trees (left <= {gmax} vertices, right <= {hmax}; in the thorough tier pairs of 7 vertices get a fifth and pairs of 8 a twentieth of the variants, rotating; labels α0/x/foo, sibling labels distinct), every placement of data (distinct bytes per vertex, inline and heap; the empty datum; data that differ from the ones they overwrite only by a trailing 00 byte), 5 id assignments of the left tree (dense, reversed, gaps, new ids landing on recycled slots, left tree built on recycled slots) x put before/after bind, 4 id assignments of the right tree (dense, shifted, reversed, far beyond the capacity of the left graph), the right tree with unread data and with data that was already read before the merge, the left tree likewise (all holders read but one), every `left`, Sodg<3> and Sodg<16>; kept if the reference model says the result stays within the limits. Oracle: Ok; right graph unchanged; the graft applied to the model as add/bind/put (new ids read back from the implementation, each absent before and never returned by next_id) equals the left graph afterwards (vertices, edges); injective mapping; then every order of reads of the data-holding vertices (all permutations up to 4 holders, quick tier 3; above: every rotation and its reversal) compared with the model read by read (bytes and alive set). distinct_nontrivial = merge cases inside the limits");
    super::outcome("C11", tier, "exploration", &rule, acc, true, json!({"left_trees": ng, "right_trees": nh, "variants": nv}), t0.elapsed().as_secs_f64(), vec!["checked up to the choice of new ids, which the statement leaves open".to_string(), "the merge inside longer histories (C01-C03 afterwards) is additionally explored by the Merge transition of HX in the C01-C05 runs".to_string()], machinery)
}

// ---------------------------------------------------------------- C12

#[derive(Clone, Debug, Serialize, Deserialize)]
pub struct DropCase {
    pub g_shape: Shape,
    pub left_node: usize,
    pub h_shape: Shape,
    pub h_data: Vec<Option<u8>>,
    /// extras: 0 isolated vertex, 1 isolated vertex with data, 2 detached 2-vertex subtree,
    /// 3 isolated vertex whose data was already read
    pub extras: Vec<u8>,
    /// the id of the tree's last node was used before by a vertex (with an edge, no data) that was
    /// collected: the tree is built on a recycled slot
    #[serde(default)]
    pub h_recycled: bool,
    /// 1: `left` already holds the very bytes the tree's root brings (a retried merge);
    /// 2: the first extra of the right graph has id 0 (the left graph has a vertex 0 too)
    #[serde(default)]
    pub twist: u8,
    /// node of h used as `right` (0 = the real root)
    pub right_node: usize,
    /// the data of the tree were read before the merge, all but the last holder's (the tree is
    /// still whole: its group keeps one unread datum)
    #[serde(default)]
    pub h_reads: bool,
}

pub fn check_drop(acc: &mut Acc, c: &DropCase) {
    const N: usize = 16;
    let gdata = vec![None; c.g_shape.size()];
    let (ops, gids) = build_ops(&c.g_shape, &gdata, IdPlan::Dense, false);
    let mut g: Sodg<N> = Sodg::empty(64);
    let mut m = Model::new(64, N, false);
    for op in &ops {
        if crate::hx::step_nocheck(&mut g, &mut m, op).is_err() {
            return;
        }
    }
    // the right graph: the tree on ids 1.., extras on the ids after it
    let h = c.h_shape.htree(&c.h_data);
    if c.twist == 1 {
        match h.data[c.right_node] {
            Some(d) => {
                let _ = guarded(|| g.put(gids[c.left_node], &dat(d)));
            }
            None => return, // same as the variant without the twist
        }
    }
    let ids: Vec<usize> = (1..=h.size()).collect();
    let mut hg: Sodg<N> = Sodg::empty(64);
    if c.h_recycled {
        let last = ids[h.size() - 1];
        hg.add(last);
        hg.add(40);
        hg.bind(last, 40, lab(2));
        hg.put(40, &dat(3));
        let _ = hg.data(40); // collects both; id 40 stays absent, `last` is re-added by the tree
    }
    crate::real::build_tree_into(&mut hg, &h, &ids);
    if c.h_reads {
        let holders: Vec<usize> = (0..h.size()).filter(|i| h.data[*i].is_some()).collect();
        if holders.len() < 2 {
            return; // same as the variant without reads
        }
        for i in &holders[..holders.len() - 1] {
            if guarded(|| hg.data(ids[*i])).is_err() {
                return;
            }
        }
        let mut want = ids.clone();
        want.sort_unstable();
        if guarded(|| crate::real::keys_sorted(&hg)).ok() != Some(want) {
            return; // a read collected part of the tree: C02 judges that
        }
        acc.bump("right_trees_holding_read_data", 1);
    }
    let mut next = h.size() + 1;
    let mut present: BTreeSet<usize> = ids.iter().copied().collect();
    let mut first_extra = c.twist == 2;
    for e in &c.extras {
        // twist 2: the first extra vertex takes id 0
        let save = next;
        if first_extra && *e != 2 {
            next = 0;
        }
        match e {
            0 => {
                hg.add(next);
                present.insert(next);
                next += 1;
            }
            1 => {
                hg.add(next);
                hg.put(next, &dat(3));
                present.insert(next);
                next += 1;
            }
            3 => {
                hg.add(next);
                hg.put(next, &dat(1));
                let _ = hg.data(next);
                present.insert(next);
                next += 1;
            }
            _ => {
                hg.add(next);
                hg.add(next + 1);
                hg.bind(next, next + 1, lab(1));
                present.insert(next);
                present.insert(next + 1);
                next += 2;
            }
        }
        if first_extra && *e != 2 {
            next = save;
            first_extra = false;
        }
    }
    if c.twist == 2 && (first_extra || c.extras.is_empty()) {
        return; // no single-vertex extra to put on id 0: same as the variant without the twist
    }
    // reference: what is reachable from `right`
    let right = ids[c.right_node];
    let mut reach = BTreeSet::new();
    let mut todo = vec![c.right_node];
    while let Some(x) = todo.pop() {
        if reach.insert(ids[x]) {
            for (_, k) in &h.kids[x] {
                todo.push(*k);
            }
        }
    }
    let missed: Vec<usize> = present.difference(&reach).copied().collect();
    acc.evaluations += 1;
    acc.nontrivial += 1;
    let replay = json!({"engine": "treegen", "property": "C12", "case": c});
    let ctx = format!("[right graph: tree {:?} + extras {:?}, right = node {} (ν{right}); left tree {:?}, left = node {}]", c.h_shape, c.extras, c.right_node, c.g_shape, c.left_node);
    crate::inflight::begin_case(|| json!({"engine": "treegen", "property": "C12", "case": c, "kind": "crash-or-hang", "tags": ["C12"]}));
    match guarded(|| g.merge(&hg, gids[c.left_node], right).map_err(|e| format!("{e:#}"))) {
        Err(e) => acc.fail("C12", "drop:panic", format!("merge() panicked: {e} {ctx}"), replay),
        Ok(Ok(())) => {
            if missed.is_empty() {
                acc.bump("complete_merges_ok", 1);
                // "mapped onto a vertex of the left graph": every vertex of the tree has its image,
                // a present vertex at the end of the same labelled path from `left`
                let keys = guarded(|| g.keys()).unwrap_or_default();
                let mut todo = vec![(c.right_node, gids[c.left_node], String::new())];
                while let Some((hn, gv, path)) = todo.pop() {
                    if !keys.contains(&gv) {
                        acc.fail("C12", "drop:ok-but-image-not-present", format!("merge() returned Ok but the vertex ν{} of the right graph (path `{path}` from `right`) was mapped onto ν{gv}, which is not present in the left graph afterwards (alive: {keys:?}) {ctx}", ids[hn]), replay.clone());
                        break;
                    }
                    for (a, k) in &h.kids[hn] {
                        match guarded(|| g.kid(gv, lab(*a))).ok().flatten() {
                            Some(t) => todo.push((*k, t, format!("{path}.{}", lab_text(*a)))),
                            None => {
                                acc.fail("C12", "drop:ok-but-vertex-not-mapped", format!("merge() returned Ok but the vertex ν{} of the right graph (path `{path}.{}` from `right`) has no image in the left graph {ctx}", ids[*k], lab_text(*a)), replay.clone());
                                todo.clear();
                                break;
                            }
                        }
                    }
                }
                // the same right graph OBJECT once more (same place, same allocator position), grown by a
                // stray vertex with data, into a fresh copy of the left tree: now the merge has to be refused
                let stray = next.max(h.size() + 1);
                let again = guarded(|| {
                    hg.add(stray);
                    hg.put(stray, &dat(3));
                    let mut g2: Sodg<N> = Sodg::empty(64);
                    let mut m2 = Model::new(64, N, false);
                    for op in &ops {
                        let _ = crate::hx::step_nocheck(&mut g2, &mut m2, op);
                    }
                    g2.merge(&hg, gids[c.left_node], right).map_err(|e| format!("{e:#}"))
                });
                acc.bump("right_graphs_grown_and_merged_again", 1);
                match again {
                    Err(e) => acc.fail("C12", "drop:panic-second-merge", format!("the right graph, grown by the stray vertex ν{stray} after a first merge, merged again: merge() panicked: {e} {ctx}"), replay.clone()),
                    Ok(Ok(())) => acc.fail("C12", "drop:ok-although-stray-added-after-first-merge", format!("the same right graph was merged a second time (into a fresh left tree) after it got the stray vertex ν{stray} with data: merge() returned Ok although ν{stray} cannot be reached from ν{right} {ctx}"), replay.clone()),
                    Ok(Err(msg)) => {
                        if let Some(mut named) = crate::parse::parse_missed(&msg) {
                            named.sort_unstable();
                            named.dedup();
                            if named != vec![stray] {
                                acc.fail("C12", "drop:err-names-wrong-vertices-second-merge", format!("the same right graph merged a second time after it got the stray vertex ν{stray}: Err names {named:?} instead of [{stray}]: {msg:?} {ctx}"), replay.clone());
                            }
                        }
                    }
                }
            } else {
                acc.fail("C12", "drop:ok-although-vertices-missed", format!("merge() returned Ok although the present vertices {missed:?} of the right graph cannot be reached from ν{right} and were not merged {ctx}"), replay);
            }
        }
        Ok(Err(msg)) => {
            if missed.is_empty() {
                // C11 judges this; here it only makes the case uninformative
                acc.bump("err_on_complete_right_graph(judged_by_C11)", 1);
                return;
            }
            acc.bump("incomplete_merges_rejected", 1);
            refused_left_as_right(acc, c, &mut g, gids[0], &ctx);
            match crate::parse::parse_missed(&msg) {
                Some(named) => {
                    let mut named = named;
                    named.sort_unstable();
                    named.dedup();
                    if named != missed {
                        acc.fail("C12", "drop:err-names-wrong-vertices", format!("merge() returned Err naming {named:?} but the vertices it missed are {missed:?}: {msg:?} {ctx}"), replay);
                    }
                }
                None => {
                    // tolerant fallback: every missed id occurs as a number in the message
                    let nums = crate::parse::numbers_in(&msg);
                    if !missed.iter().all(|x| nums.contains(x)) {
                        acc.fail("C12", "drop:err-does-not-name-missed", format!("merge() returned Err but the message does not name the missed vertices {missed:?}: {msg:?} {ctx}"), replay);
                    }
                }
            }
        }
    }
}

/// After a refused merge the left graph (whatever the refusal left in it) gets a stray vertex of its
/// own and is used as the RIGHT graph of a merge into a fresh graph: the property holds for it as
/// for any other right graph. The reference is the public view of that graph: what keys() lists
/// and kids() leads to.
fn refused_left_as_right(acc: &mut Acc, c: &DropCase, g: &mut Sodg<16>, root: usize, ctx: &str) {
    let replay = json!({"engine": "treegen", "property": "C12", "case": c});
    let r = guarded(|| {
        g.add(60);
        let keys = crate::real::keys_sorted(g);
        let mut reach = BTreeSet::new();
        let mut todo = vec![root];
        while let Some(v) = todo.pop() {
            if keys.contains(&v) && reach.insert(v) {
                todo.extend(g.kids(v).map(|(_, t)| *t));
            }
        }
        let missed: Vec<usize> = keys.iter().copied().filter(|v| !reach.contains(v)).collect();
        let mut y: Sodg<16> = Sodg::empty(64);
        y.add(0);
        (missed, y.merge(g, 0, root).map_err(|e| format!("{e:#}")))
    });
    acc.bump("refused_left_graphs_merged_as_right_graphs", 1);
    match r {
        Err(e) => acc.fail("C12", "drop:panic-after-refusal", format!("after a refused merge, merging the left graph (plus a stray vertex ν60) into a fresh graph panicked: {e} {ctx}"), replay),
        Ok((missed, Ok(()))) => {
            if !missed.is_empty() {
                acc.fail("C12", "drop:ok-although-vertices-missed-after-refusal", format!("after a refused merge the left graph (plus a stray vertex) was merged as the right graph into a fresh graph: merge() returned Ok although its present vertices {missed:?} cannot be reached from ν{root} {ctx}"), replay);
            }
        }
        Ok((missed, Err(msg))) => {
            if let Some(mut named) = crate::parse::parse_missed(&msg) {
                named.sort_unstable();
                named.dedup();
                if !missed.is_empty() && named != missed {
                    acc.fail("C12", "drop:err-names-wrong-vertices-after-refusal", format!("after a refused merge the left graph (plus a stray vertex) was merged as the right graph into a fresh graph: Err names {named:?} but the vertices missed are {missed:?}: {msg:?} {ctx}"), replay);
                }
            }
        }
    }
}

pub fn run_c12(tier: &str) -> Outcome {
    let t0 = Instant::now();
    let quick = crate::props::quick(tier);
    let hmax = if quick { 3 } else { 4 };
    let gmax = if quick { 2 } else { 3 };
    let mut g_shapes = vec![];
    for n in 1..=gmax {
        g_shapes.extend(shapes(n, &[0, 1, 2]));
    }
    let h_trees = trees(hmax, 120);
    // every combination (multiset) of up to 3 extras
    let mut extras: Vec<Vec<u8>> = vec![vec![]];
    for a in 0..4u8 {
        extras.push(vec![a]);
        for b in a..4 {
            extras.push(vec![a, b]);
            for c in b..4 {
                extras.push(vec![a, b, c]);
            }
        }
    }
    // the case space is a product, decoded from the index (never materialised)
    let lefts: Vec<(usize, usize)> = g_shapes.iter().enumerate().flat_map(|(gi, gs)| (0..gs.size()).map(move |l| (gi, l))).collect();
    let (nl, nh, ne) = (lefts.len(), h_trees.len(), extras.len());
    let total = nl * nh * ne * hmax * 2 * 3 * 2;
    let case_at = |i: usize| -> Option<DropCase> {
        let (h_reads, i) = (i % 2 == 1, i / 2);
        let (twist, i) = ((i % 3) as u8, i / 3);
        let (h_recycled, i) = (i % 2 == 1, i / 2);
        let (right_node, i) = (i % hmax, i / hmax);
        let (ei, i) = (i % ne, i / ne);
        let (hi, li) = (i % nh, i / nh);
        let (hs, hd) = &h_trees[hi];
        if right_node >= hs.size() {
            return None;
        }
        let (gi, left_node) = lefts[li];
        Some(DropCase { g_shape: g_shapes[gi].clone(), left_node, h_shape: hs.clone(), h_data: hd.clone(), extras: extras[ei].clone(), right_node, h_recycled, twist, h_reads })
    };
    let acc = super::par_cases_sliced(total, if quick { 1 } else { 8 }, |i, acc| {
        let Some(c) = case_at(i) else { return };
        check_drop(acc, &c);
        if i % 400_009 == 0 {
            acc.sample(json!(c));
        }
    });
    let mut machinery = vec![];
    for k in ["complete_merges_ok", "incomplete_merges_rejected"] {
        if acc.counters.get(k).copied().unwrap_or(0) == 0 && acc.fail_total == 0 {
            machinery.push(format!("vacuous run: situation '{k}' never occurred"));
        }
    }
    let rule = format!("every right graph = labelled tree of <= {hmax} vertices (every data placement) + every combination of up to 3 extras out of {{isolated vertex, isolated vertex with data, isolated vertex whose data was read, detached 2-vertex subtree}}, the tree built on fresh slots and on a slot recycled from a collected vertex, `left` empty or already holding the bytes the root brings (a retried merge), an extra vertex on id 0, the tree's data unread or read before the merge (all but one), `right` = every node of the tree (so also roots that are not the graph's root), every left tree of <= {gmax} vertices and every `left`. Oracle: Ok iff the reference says every present vertex of the right graph is reachable from `right`, and then every vertex of the tree has a present image at the end of the same labelled path from `left`; otherwise Err whose text names exactly the unreachable present vertices; after every refusal the left graph, plus a stray vertex, is itself merged as the right graph into a fresh graph under the same oracle (reference: its keys()/kids()). distinct_nontrivial = distinct (left, right graph, left, right) cases");
    super::outcome("C12", tier, "exploration", &rule, acc, true, json!({}), t0.elapsed().as_secs_f64(), vec!["the missed vertices are read from the ν<id> tokens after the word 'missed' in the error text; without such tokens the check only demands that every missed id occurs in the message".to_string()], machinery)
}

pub fn replay(v: &Value) -> i32 {
    let mut acc = Acc::default();
    let prop = v["property"].as_str().unwrap_or("C11").to_string();
    if prop == "C12" {
        let Ok(c) = serde_json::from_value::<DropCase>(v["case"].clone()) else { return 2 };
        check_drop(&mut acc, &c);
    } else {
        let Ok(c) = serde_json::from_value::<MergeCase>(v["case"].clone()) else { return 2 };
        let counted = if c.n == 3 { check_merge::<3>(&mut acc, &c) } else { check_merge::<16>(&mut acc, &c) };
        if !counted {
            println!("the case is outside the limits on this tree");
        }
    }
    for f in &acc.failures {
        println!("  {}", f.summary);
    }
    if acc.fail_total > 0 {
        println!("REPRODUCED property={prop}");
        1
    } else {
        println!("NOT REPRODUCED property={prop}");
        0
    }
}

#[allow(dead_code)]
fn unused(_: &str) -> String {
    lab_text(0)
}
