//! Directed but exhaustive families for what small BFS alphabets cannot reach:
//! 16-member groups (C02), the slot table at 14 live groups over hundreds of
//! cycles (C06), and the value sweep of C03.

use super::Acc;
use crate::hx::{step, HxCfg};
use crate::model::{Model, Op};
use crate::real::guarded;
use serde_json::json;
use sodg::{Hex, Label, Sodg};

/// Run a history in lock-step with the model; a finding tagged for `prop` fails the case.
/// Ops the model does not enable are a bug of the family itself.
pub fn run_history<const N: usize>(acc: &mut Acc, prop: &'static str, what: &str, cap: usize, ops: &[Op]) -> bool {
    let mut g: Sodg<N> = Sodg::empty(cap);
    let mut m = Model::new(cap, N, false);
    let labels: Vec<u8> = vec![0];
    for (i, op) in ops.iter().enumerate() {
        let pos = g.verif_snapshot().next_v;
        if !m.enabled(op, pos) {
            acc.fail(prop, "machinery:family-op-not-enabled", format!("{what}: op {i} {} is outside the limits", op.text()), json!({}));
            return false;
        }
        acc.evaluations += 1;
        let (_, fs) = step(&labels, &mut g, &mut m, op);
        if let Some(f) = fs.iter().find(|f| f.tags.contains(&prop) || prop == "C06") {
            let mut cfg = HxCfg::new(prop, what, N, cap, &[], &labels, &[]);
            cfg.next_id = false;
            acc.fail(prop, &format!("family:{}", f.kind), format!("{what}: [{}] at call {} of {}: {}", f.kind, i + 1, ops.len(), f.detail), crate::report::hx_case_json(&cfg, &ops[..=i], "transition", &f.kind, &f.detail, None));
            return false;
        }
        if !fs.is_empty() {
            acc.bump("diverged_not_this_property", 1);
            return false;
        }
    }
    true
}

/// C02 (a): every way to grow one group to exactly 16 members (each join through
/// either bind arm: 2^14 patterns), data on one or two members, put before or
/// after the join, both read orders: all members die together, nobody earlier.
pub fn group_of_16(acc: &mut Acc, pattern: usize, variant: usize) {
    let a = pattern % 16;
    let b = (pattern / 16) % 16;
    let put_early = variant & 1 == 1;
    let rev_reads = variant & 2 == 2;
    let overwrite = variant & 4 == 4;
    let mut ops = vec![Op::Add(0), Op::Add(1)];
    let early = |v: usize, ops: &mut Vec<Op>| {
        if put_early && (v == a || v == b) {
            ops.push(Op::Put(v, 0));
        }
    };
    early(0, &mut ops);
    early(1, &mut ops);
    ops.push(Op::Bind(0, 1, 0));
    for i in 2..16usize {
        ops.push(Op::Add(i));
        early(i, &mut ops);
        // join through either arm, hanging under a member that still has label room
        let member = i - 1;
        if pattern >> (i - 2) & 1 == 0 {
            ops.push(Op::Bind(member, i, 0));
        } else {
            ops.push(Op::Bind(i, member, 0));
        }
    }
    // a bystander group and an ungrouped vertex that must survive
    ops.extend([Op::Add(16), Op::Add(17), Op::Bind(16, 17, 0), Op::Put(17, 0), Op::Add(18), Op::Put(18, 0)]);
    if !put_early {
        ops.push(Op::Put(a, 0));
        if b != a {
            ops.push(Op::Put(b, 0));
        }
    }
    if overwrite {
        ops.push(Op::Put(a, 0)); // overwriting an unread datum
    }
    let mut reads = if a == b { vec![a] } else { vec![a, b] };
    if rev_reads {
        reads.reverse();
    }
    // an empty read on a member first
    ops.push(Op::Data((0..16).find(|v| *v != a && *v != b).unwrap()));
    for r in reads {
        ops.push(Op::Data(r));
    }
    if run_history::<2>(acc, "C02", &format!("16-member group, join pattern {pattern:#016b}, variant {variant}"), 20, &ops) {
        acc.nontrivial += 1;
        acc.bump("groups_of_16_grown_and_collected", 1);
    }
    if pattern % 4099 == 0 && variant == 0 {
        acc.sample(json!({"family": "group of 16", "history": crate::model::hist_text(&ops)}));
    }
}

/// C06 (2): fill all 14 slots, kill the subset `kill` (in ascending or descending
/// order), then run `cycles` create-put-read cycles over a rotating set of 3 id
/// pairs with the remaining groups alive.
pub fn slot_cycles(acc: &mut Acc, kill: usize, desc: bool, put_first: bool, cycles: usize) {
    slot_cycles_v(acc, kill, desc, u8::from(put_first), cycles);
}

/// variant 0: put after bind; 1: put before bind; 2: heap datum put, read, put again (the same
/// bytes) while ungrouped, then bind, then read
pub fn slot_cycles_v(acc: &mut Acc, kill: usize, desc: bool, variant: u8, cycles: usize) {
    let put_first = variant == 1;
    if kill == 0 {
        return; // 14 groups alive: no room for another one (outside the limits)
    }
    let mut ops = vec![];
    for gidx in 0..14usize {
        let (x, y) = (2 * gidx, 2 * gidx + 1);
        ops.extend([Op::Add(x), Op::Add(y), Op::Bind(x, y, 0), Op::Put(y, 0)]);
    }
    let mut order: Vec<usize> = (0..14).filter(|i| kill >> i & 1 == 1).collect();
    if desc {
        order.reverse();
    }
    for gidx in &order {
        ops.push(Op::Data(2 * gidx + 1));
    }
    // rotating pairs: re-use collected ids (recycled slots) and three fresh ones
    let freed: Vec<usize> = order.clone();
    let pairs: Vec<(usize, usize)> = vec![(28, 29), (30, 31), (2 * freed[0], 2 * freed[0] + 1)];
    for c in 0..cycles {
        let (x, y) = pairs[c % 3];
        ops.push(Op::Add(x));
        ops.push(Op::Add(y));
        if variant == 2 {
            ops.extend([Op::Put(x, 1), Op::Data(x), Op::Put(x, 1), Op::Bind(x, y, 0)]);
        } else if put_first {
            ops.push(Op::Put(x, 0));
            ops.push(Op::Bind(x, y, 0));
        } else {
            ops.push(Op::Bind(x, y, 0));
            ops.push(Op::Put(x, 0));
        }
        if c % 5 == 4 {
            ops.push(Op::Data(y)); // an empty read in between
        }
        ops.push(Op::Data(x));
    }
    let alive = 14 - order.len();
    if run_history::<2>(acc, "C06", &format!("slot table: 14 groups, kill {kill:#016b} {}, then {cycles} cycles ({}) with {alive} groups alive", if desc { "descending" } else { "ascending" }, match variant { 1 => "put before bind", 2 => "heap datum put, read and put again before the bind", _ => "put after bind" }), 32, &ops) {
        acc.nontrivial += 1;
        acc.bump("cycle_runs_completed", 1);
        acc.bump("collections_in_cycles", cycles as u64);
        acc.bump(&format!("runs_with_{alive}_groups_kept_alive"), 1);
    }
    if kill % 2731 == 0 && !desc && !put_first {
        acc.sample(json!({"family": "slot cycles", "kill_pattern": format!("{kill:#016b}"), "cycles": cycles, "calls": ops.len(), "history_prefix": crate::model::hist_text(&ops[..ops.len().min(70)])}));
    }
}

pub fn run_c02_family(tier: &str) -> Acc {
    let quick = crate::props::quick(tier);
    let variants: usize = if quick { 4 } else { 8 };
    let total = (1usize << 14) * variants;
    super::par_cases(total, |k, acc| {
        if k % 512 == 0 {
            crate::inflight::begin_case(|| json!({"engine": "family", "property": "C02", "kind": "crash-or-hang", "tags": ["C02"], "case": k}));
        }
        group_of_16(acc, k / variants, k % variants);
    })
}

pub fn run_c06_family(tier: &str) -> Acc {
    let quick = crate::props::quick(tier);
    // quick: every third occupancy pattern; thorough: all of them, both kill orders, both variants
    let patterns: Vec<usize> = (1..(1usize << 14)).filter(|p| !quick || p % 3 == 1).collect();
    let mut acc = super::par_cases(patterns.len() * 4, |k, acc| {
        if k % 256 == 0 {
            crate::inflight::begin_case(|| json!({"engine": "family", "property": "C06", "kind": "crash-or-hang", "tags": ["C06"], "case": k}));
        }
        let p = patterns[k / 4];
        let v = k % 4;
        if quick && v != (p % 4) {
            return; // quick: one of the four (order, variant) combinations per pattern, rotating
        }
        slot_cycles(acc, p, v & 1 == 1, v & 2 == 2, 45);
    });
    // long runs: contiguous patterns for every number k of groups kept alive
    let long = if quick { 150 } else { 300 };
    let lacc = super::par_cases(14 * 3, |k, acc| {
        let keep = k / 3; // 0..=13 groups stay alive
        let kill = ((1usize << 14) - 1) & !((1usize << keep) - 1);
        slot_cycles_v(acc, kill, false, (k % 3) as u8, long);
        acc.bump("long_runs", 1);
    });
    acc.merge(lacc);
    acc
}

// ------------------------------------------------------------------ C03 value sweep

fn label_menu() -> Vec<Label> {
    let s = crate::menu::str_label;
    vec![
        Label::Alpha(0), Label::Alpha(1), Label::Alpha(10), Label::Alpha(usize::MAX), Label::Alpha(255), Label::Alpha(256),
        Label::Greek('a'), Label::Greek('Z'), Label::Greek('7'), Label::Greek('ρ'), Label::Greek('σ'), Label::Greek('π'), Label::Greek('φ'), Label::Greek('Δ'), Label::Greek('𝜑'), Label::Greek('€'), Label::Greek('1'),
        s("ab"), s("ba"), s("ρσ"), s("σρ"), s("foo"), s("fo"), s("fooo"), s("𝜑𝜑"), s("𝜑ρ"), s("a1b2c3d4"), s("a1b2c3d5"), s("ρρρρρρρρ"), s("ρρρρρρρ"), s("𝜑𝜑𝜑𝜑𝜑𝜑𝜑𝜑"), s("x-y_z+w"), s("α1"), s("1α"), s("hello"), s("Hello"), s("+bar"), s("bar"), s("ΔΔ"), s("12"),
    ]
}

fn bytes_of(len: usize, salt: u8) -> Vec<u8> {
    (0..len).map(|i| (i as u8).wrapping_mul(7).wrapping_add(salt)).collect()
}

/// One cell of the sweep: all histories for one (label, length, N).
fn sweep_cell<const N: usize>(acc: &mut Acc, l: Label, other: Label, len: usize) {
    let d = bytes_of(len, 0x31);
    let d2 = bytes_of((len + 9) % 18, 0x77);
    let hx = |b: &[u8]| Hex::from_slice(b);
    let mut check = |name: &str, ok: Result<bool, String>| {
        acc.evaluations += 1;
        let replay = json!({"engine": "sweep", "property": "C03", "history": name, "label": crate::gen::labelgen::describe(&l), "data_len": len, "n": N});
        match ok {
            Ok(true) => {}
            Ok(false) => acc.fail("C03", &format!("sweep:{name}"), format!("value sweep, history '{name}' with label {} and {len} bytes of data on Sodg<{N}>: the answer is not what was last written", crate::gen::labelgen::describe(&l)), replay),
            Err(e) => acc.fail("C03", &format!("sweep-panic:{name}"), format!("value sweep, history '{name}' with label {} and {len} bytes on Sodg<{N}> panicked: {e}", crate::gen::labelgen::describe(&l)), replay),
        }
    };
    let base = || {
        let mut g: Sodg<N> = Sodg::empty(8);
        for v in 0..6 {
            g.add(v);
        }
        g
    };
    check("bind then kid/kids", guarded(|| {
        let mut g = base();
        g.bind(0, 1, l);
        let kids: Vec<(Label, usize)> = g.kids(0).map(|(a, t)| (*a, *t)).collect();
        g.kid(0, l) == Some(1) && kids == vec![(l, 1)] && g.kid(0, other).is_none() && g.kid(1, l).is_none()
    }));
    check("rebind replaces", guarded(|| {
        let mut g = base();
        g.bind(0, 1, l);
        g.bind(0, 2, l);
        let kids: Vec<(Label, usize)> = g.kids(0).map(|(a, t)| (*a, *t)).collect();
        g.kid(0, l) == Some(2) && kids == vec![(l, 2)]
    }));
    if N >= 2 {
        check("two labels side by side", guarded(|| {
            let mut g = base();
            g.bind(0, 1, l);
            g.bind(0, 2, other);
            g.bind(0, 3, l);
            let mut kids: Vec<(Label, usize)> = g.kids(0).map(|(a, t)| (*a, *t)).collect();
            kids.sort();
            let mut want = vec![(l, 3), (other, 2)];
            want.sort();
            g.kid(0, l) == Some(3) && g.kid(0, other) == Some(2) && kids == want
        }));
    }
    check("put then read twice", guarded(|| {
        let mut g = base();
        let none = g.data(0).is_none();
        g.put(0, &hx(&d));
        none && g.data(0).map(|h| h.to_vec()) == Some(d.clone()) && g.data(0).map(|h| h.to_vec()) == Some(d.clone())
    }));
    check("overwrite unread", guarded(|| {
        let mut g = base();
        g.put(0, &hx(&d));
        g.put(0, &hx(&d2));
        g.data(0).map(|h| h.to_vec()) == Some(d2.clone()) && g.data(0).map(|h| h.to_vec()) == Some(d2.clone())
    }));
    check("reput after read", guarded(|| {
        let mut g = base();
        g.put(0, &hx(&d));
        let a = g.data(0).map(|h| h.to_vec()) == Some(d.clone());
        g.put(0, &hx(&d2));
        a && g.data(0).map(|h| h.to_vec()) == Some(d2.clone())
    }));
    check("survives a collection elsewhere", guarded(|| {
        let mut g = base();
        g.bind(0, 1, l);
        g.put(1, &hx(&d));
        g.put(5, &hx(&d2)); // ungrouped bystander
        g.bind(2, 3, l);
        g.put(3, &hx(&d2));
        let _ = g.data(3); // collects 2 and 3
        let gone = g.keys() == vec![0, 1, 4, 5];
        gone && g.kid(0, l) == Some(1) && g.data(5).map(|h| h.to_vec()) == Some(d2.clone()) && g.data(1).map(|h| h.to_vec()) == Some(d.clone())
    }));
    check("data of a grouped vertex, heap and inline", guarded(|| {
        let mut g = base();
        g.bind(0, 1, l);
        g.put(0, &hx(&d));
        g.put(1, &hx(&d2));
        let a = g.data(0).map(|h| h.to_vec()) == Some(d.clone());
        let again = g.data(0).map(|h| h.to_vec()) == Some(d.clone());
        a && again && g.kid(0, l) == Some(1)
    }));
}

pub fn run_c03_sweep(_tier: &str) -> Acc {
    let labels = label_menu();
    let lens: Vec<usize> = (0..=17).collect();
    let total = labels.len() * lens.len();
    let mut acc = super::par_cases(total, |k, acc| {
        let l = labels[k / lens.len()];
        let other = labels[(k / lens.len() + 1) % labels.len()];
        let len = lens[k % lens.len()];
        crate::inflight::begin_case(|| json!({"engine": "sweep", "property": "C03", "kind": "crash-or-hang", "tags": ["C03"], "label": crate::gen::labelgen::describe(&l), "data_len": len}));
        sweep_cell::<1>(acc, l, other, len);
        sweep_cell::<2>(acc, l, other, len);
        sweep_cell::<16>(acc, l, other, len);
        acc.nontrivial += 3;
        if k % 97 == 0 {
            acc.sample(json!({"family": "value sweep", "label": crate::gen::labelgen::describe(&l), "data_bytes": len}));
        }
    });
    acc.bump("sweep_labels", labels.len() as u64);
    acc.bump("sweep_lengths", lens.len() as u64);
    acc
}
