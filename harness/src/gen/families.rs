//! Directed but exhaustive families for what small BFS alphabets cannot reach:
//! 16-member groups (C02), the slot table at 14 live groups over hundreds of
//! cycles (C06), and the value sweep of C03.

use super::Acc;
use crate::hx::{step, HxCfg};
use crate::model::{Model, Op};
use crate::real::guarded;
use serde_json::json;
use sodg::{Hex, Label, Sodg};

/// Run a history in lock-step with the model; a finding tagged for `prop` fails the case.
/// Ops the model does not enable are a bug of the family itself.
pub fn run_history<const N: usize>(acc: &mut Acc, prop: &'static str, what: &str, cap: usize, ops: &[Op]) -> bool {
    run_history_opt::<N>(acc, prop, what, cap, ops, prop == "C06", false)
}

/// `any`: every divergence from the model fails the case (the property says "as the model" for
/// the whole history); `track`: the model keeps the set of returned ids (C05).
pub fn run_history_opt<const N: usize>(acc: &mut Acc, prop: &'static str, what: &str, cap: usize, ops: &[Op], any: bool, track: bool) -> bool {
    let mut g: Sodg<N> = Sodg::empty(cap);
    let mut m = Model::new(cap, N, track);
    let labels: Vec<u8> = vec![0];
    let mut done: Vec<Op> = vec![];
    for (i, op) in ops.iter().enumerate() {
        let pos = g.verif_snapshot().next_v;
        if !m.enabled(op, pos) {
            if any || track {
                continue; // these families over-generate: a call the model does not allow here is skipped
            }
            acc.fail(prop, "machinery:family-op-not-enabled", format!("{what}: op {i} {} is outside the limits", op.text()), json!({}));
            return false;
        }
        acc.evaluations += 1;
        done.push(*op);
        let (_, fs) = step(&labels, &mut g, &mut m, op);
        if let Some(f) = fs.iter().find(|f| f.tags.contains(&prop) || any) {
            let mut cfg = HxCfg::new(prop, what, N, cap, &[], &labels, &[]);
            cfg.next_id = false;
            cfg.track_returned = track;
            acc.fail(prop, &format!("family:{}", f.kind), format!("{what}: [{}] at call {} of {}: {}", f.kind, i + 1, ops.len(), f.detail), crate::report::hx_case_json(&cfg, &done, "transition", &f.kind, &f.detail, None));
            return false;
        }
        if !fs.is_empty() {
            acc.bump("diverged_not_this_property", 1);
            return false;
        }
    }
    true
}

/// C02 (a): every way to grow one group to exactly 16 members (each join through
/// either bind arm: 2^14 patterns), data on one or two members, put before or
/// after the join, both read orders: all members die together, nobody earlier.
pub fn group_of_16(acc: &mut Acc, pattern: usize, variant: usize) {
    let a = pattern % 16;
    let b = (pattern / 16) % 16;
    let put_early = variant & 1 == 1;
    let rev_reads = variant & 2 == 2;
    let overwrite = variant & 4 == 4;
    let mut ops = vec![Op::Add(0), Op::Add(1)];
    let early = |v: usize, ops: &mut Vec<Op>| {
        if put_early && (v == a || v == b) {
            ops.push(Op::Put(v, 0));
        }
    };
    early(0, &mut ops);
    early(1, &mut ops);
    ops.push(Op::Bind(0, 1, 0));
    for i in 2..16usize {
        ops.push(Op::Add(i));
        early(i, &mut ops);
        // join through either arm, hanging under a member that still has label room
        let member = i - 1;
        if pattern >> (i - 2) & 1 == 0 {
            ops.push(Op::Bind(member, i, 0));
        } else {
            ops.push(Op::Bind(i, member, 0));
        }
    }
    // a bystander group and an ungrouped vertex that must survive
    ops.extend([Op::Add(16), Op::Add(17), Op::Bind(16, 17, 0), Op::Put(17, 0), Op::Add(18), Op::Put(18, 0)]);
    if !put_early {
        ops.push(Op::Put(a, 0));
        if b != a {
            ops.push(Op::Put(b, 0));
        }
    }
    if overwrite {
        ops.push(Op::Put(a, 0)); // overwriting an unread datum
    }
    let mut reads = if a == b { vec![a] } else { vec![a, b] };
    if rev_reads {
        reads.reverse();
    }
    // an empty read on a member first
    ops.push(Op::Data((0..16).find(|v| *v != a && *v != b).unwrap()));
    for r in reads {
        ops.push(Op::Data(r));
    }
    if run_history::<2>(acc, "C02", &format!("16-member group, join pattern {pattern:#016b}, variant {variant}"), 20, &ops) {
        acc.nontrivial += 1;
        acc.bump("groups_of_16_grown_and_collected", 1);
    }
    if pattern % 4099 == 0 && variant == 0 {
        acc.sample(json!({"family": "group of 16", "history": crate::model::hist_text(&ops)}));
    }
}

/// C06 (2): fill all 14 slots, kill the subset `kill` (in ascending or descending
/// order), then run `cycles` create-put-read cycles over a rotating set of 3 id
/// pairs with the remaining groups alive.
pub fn slot_cycles(acc: &mut Acc, kill: usize, desc: bool, put_first: bool, cycles: usize) {
    slot_cycles_v(acc, kill, desc, u8::from(put_first), cycles);
}

/// variant 0: put after bind; 1: put before bind; 2: heap datum put, read, put again (the same
/// bytes) while ungrouped, then bind, then read; 3: as 0, and between the put and the read of
/// every 4th cycle the graph is handed over to a used object by clone_from()
pub fn slot_cycles_v(acc: &mut Acc, kill: usize, desc: bool, variant: u8, cycles: usize) {
    let put_first = variant == 1;
    if kill == 0 {
        return; // 14 groups alive: no room for another one (outside the limits)
    }
    let mut ops = vec![];
    for gidx in 0..14usize {
        let (x, y) = (2 * gidx, 2 * gidx + 1);
        ops.extend([Op::Add(x), Op::Add(y), Op::Bind(x, y, 0), Op::Put(y, 0)]);
    }
    let mut order: Vec<usize> = (0..14).filter(|i| kill >> i & 1 == 1).collect();
    if desc {
        order.reverse();
    }
    for gidx in &order {
        ops.push(Op::Data(2 * gidx + 1));
    }
    // rotating pairs: re-use collected ids (recycled slots) and three fresh ones
    let freed: Vec<usize> = order.clone();
    let pairs: Vec<(usize, usize)> = vec![(28, 29), (30, 31), (2 * freed[0], 2 * freed[0] + 1)];
    for c in 0..cycles {
        let (x, y) = pairs[c % 3];
        ops.push(Op::Add(x));
        ops.push(Op::Add(y));
        if variant == 4 {
            // the group is formed by a script that fails after ADD, ADD, BIND, PUT(y): those four stay applied
            ops.truncate(ops.len() - 2);
            ops.push(Op::Script(1, x, y));
            ops.push(Op::Put(x, 0));
            ops.push(Op::Data(y));
        } else if variant == 2 {
            ops.extend([Op::Put(x, 1), Op::Data(x), Op::Put(x, 1), Op::Bind(x, y, 0)]);
        } else if put_first {
            ops.push(Op::Put(x, 0));
            ops.push(Op::Bind(x, y, 0));
        } else {
            ops.push(Op::Bind(x, y, 0));
            ops.push(Op::Put(x, 0));
        }
        if c % 5 == 4 {
            ops.push(Op::Data(y)); // an empty read in between
        }
        if variant == 3 && c % 4 == 1 {
            ops.push(Op::CloneFromSwap);
        }
        ops.push(Op::Data(x));
    }
    let alive = 14 - order.len();
    if run_history::<2>(acc, "C06", &format!("slot table: 14 groups, kill {kill:#016b} {}, then {cycles} cycles ({}) with {alive} groups alive", if desc { "descending" } else { "ascending" }, match variant { 4 => "group formed by a script that fails after four commands", 1 => "put before bind", 2 => "heap datum put, read and put again before the bind", 3 => "put after bind, clone_from() into a used object in every 4th cycle", _ => "put after bind" }), 32, &ops) {
        acc.nontrivial += 1;
        acc.bump("cycle_runs_completed", 1);
        acc.bump("collections_in_cycles", cycles as u64);
        acc.bump(&format!("runs_with_{alive}_groups_kept_alive"), 1);
    }
    if kill % 2731 == 0 && !desc && !put_first {
        acc.sample(json!({"family": "slot cycles", "kill_pattern": format!("{kill:#016b}"), "cycles": cycles, "calls": ops.len(), "history_prefix": crate::model::hist_text(&ops[..ops.len().min(70)])}));
    }
}

pub fn run_c02_family(tier: &str) -> Acc {
    let quick = crate::props::quick(tier);
    let variants: usize = if quick { 4 } else { 8 };
    let total = (1usize << 14) * variants;
    let mut first = Acc::default();
    for v in 0..8 {
        fourteen_groups(&mut first, v);
    }
    let mut rest = run_c02_members(total, variants);
    first.merge(std::mem::take(&mut rest));
    first
}

fn run_c02_members(total: usize, variants: usize) -> Acc {
    super::par_cases(total, |k, acc| {
        if k % 512 == 0 {
            crate::inflight::begin_case(|| json!({"engine": "family", "property": "C02", "kind": "crash-or-hang", "tags": ["C02"], "case": k}));
        }
        group_of_16(acc, k / variants, k % variants);
    })
}

pub fn run_c06_family(tier: &str) -> Acc {
    let quick = crate::props::quick(tier);
    // quick: every third occupancy pattern; thorough: all of them, both kill orders, both variants
    let patterns: Vec<usize> = (1..(1usize << 14)).filter(|p| !quick || p % 3 == 1).collect();
    let mut acc = super::par_cases(patterns.len() * 4, |k, acc| {
        if k % 256 == 0 {
            crate::inflight::begin_case(|| json!({"engine": "family", "property": "C06", "kind": "crash-or-hang", "tags": ["C06"], "case": k}));
        }
        let p = patterns[k / 4];
        let v = k % 4;
        if quick && v != (p % 4) {
            return; // quick: one of the four (order, variant) combinations per pattern, rotating
        }
        slot_cycles(acc, p, v & 1 == 1, v & 2 == 2, 45);
    });
    // long runs: contiguous patterns for every number k of groups kept alive
    let long = if quick { 150 } else { 300 };
    let lacc = super::par_cases(14 * 5, |k, acc| {
        let keep = k / 5; // 0..=13 groups stay alive
        let kill = ((1usize << 14) - 1) & !((1usize << keep) - 1);
        slot_cycles_v(acc, kill, false, (k % 5) as u8, long);
        acc.bump("long_runs", 1);
    });
    acc.merge(lacc);
    acc
}

// ------------------------------------------------------------------ C03 value sweep

fn label_menu() -> Vec<Label> {
    let s = crate::menu::str_label;
    vec![
        Label::Alpha(0), Label::Alpha(1), Label::Alpha(10), Label::Alpha(usize::MAX), Label::Alpha(255), Label::Alpha(256),
        Label::Greek('a'), Label::Greek('Z'), Label::Greek('7'), Label::Greek('ρ'), Label::Greek('σ'), Label::Greek('π'), Label::Greek('φ'), Label::Greek('Δ'), Label::Greek('𝜑'), Label::Greek('€'), Label::Greek('1'),
        s("ab"), Label::Str(['a', ' ', 'b', ' ', ' ', ' ', ' ', ' ']), s("ba"), s("ρσ"), s("σρ"), s("foo"), s("fo"), s("fooo"), s("𝜑𝜑"), s("𝜑ρ"), s("a1b2c3d4"), s("a1b2c3d5"), s("ρρρρρρρρ"), s("ρρρρρρρ"), s("𝜑𝜑𝜑𝜑𝜑𝜑𝜑𝜑"), s("x-y_z+w"), s("α1"), s("1α"), s("hello"), s("Hello"), s("+bar"), s("bar"), s("ΔΔ"), s("12"),
    ]
}

fn bytes_of(len: usize, salt: u8) -> Vec<u8> {
    (0..len).map(|i| (i as u8).wrapping_mul(7).wrapping_add(salt)).collect()
}

/// One cell of the sweep: all histories for one (label, length, N).
fn sweep_cell<const N: usize>(acc: &mut Acc, l: Label, other: Label, len: usize, first: Option<u8>) {
    let mut d = bytes_of(len, 0x31);
    let mut d2 = bytes_of((len + 9) % 18, 0x77);
    // contents that look like "nothing": a leading (or only) 00 / FF byte, all-equal bytes
    if let Some(b) = first {
        if let Some(x) = d.first_mut() {
            *x = b;
        }
        for x in d2.iter_mut() {
            *x = b;
        }
    }
    let hx = |b: &[u8]| Hex::from_slice(b);
    let mut check = |name: &str, ok: Result<bool, String>| {
        acc.evaluations += 1;
        let replay = json!({"engine": "sweep", "property": "C03", "history": name, "label": crate::gen::labelgen::describe(&l), "data_len": len, "n": N});
        match ok {
            Ok(true) => {}
            Ok(false) => acc.fail("C03", &format!("sweep:{name}"), format!("value sweep, history '{name}' with label {} and {len} bytes of data on Sodg<{N}>: the answer is not what was last written", crate::gen::labelgen::describe(&l)), replay),
            Err(e) => acc.fail("C03", &format!("sweep-panic:{name}"), format!("value sweep, history '{name}' with label {} and {len} bytes on Sodg<{N}> panicked: {e}", crate::gen::labelgen::describe(&l)), replay),
        }
    };
    let base = || {
        let mut g: Sodg<N> = Sodg::empty(8);
        for v in 0..6 {
            g.add(v);
        }
        g
    };
    check("bind then kid/kids", guarded(|| {
        let mut g = base();
        g.bind(0, 1, l);
        let kids: Vec<(Label, usize)> = g.kids(0).map(|(a, t)| (*a, *t)).collect();
        g.kid(0, l) == Some(1) && kids == vec![(l, 1)] && g.kid(0, other).is_none() && g.kid(1, l).is_none()
    }));
    check("rebind replaces", guarded(|| {
        let mut g = base();
        g.bind(0, 1, l);
        g.bind(0, 2, l);
        let kids: Vec<(Label, usize)> = g.kids(0).map(|(a, t)| (*a, *t)).collect();
        g.kid(0, l) == Some(2) && kids == vec![(l, 2)]
    }));
    if N >= 2 {
        check("two labels side by side", guarded(|| {
            let mut g = base();
            g.bind(0, 1, l);
            g.bind(0, 2, other);
            g.bind(0, 3, l);
            let mut kids: Vec<(Label, usize)> = g.kids(0).map(|(a, t)| (*a, *t)).collect();
            kids.sort();
            let mut want = vec![(l, 3), (other, 2)];
            want.sort();
            g.kid(0, l) == Some(3) && g.kid(0, other) == Some(2) && kids == want
        }));
    }
    check("put then read twice", guarded(|| {
        let mut g = base();
        let none = g.data(0).is_none();
        g.put(0, &hx(&d));
        none && g.data(0).map(|h| h.to_vec()) == Some(d.clone()) && g.data(0).map(|h| h.to_vec()) == Some(d.clone())
    }));
    check("overwrite unread", guarded(|| {
        let mut g = base();
        g.put(0, &hx(&d));
        g.put(0, &hx(&d2));
        g.data(0).map(|h| h.to_vec()) == Some(d2.clone()) && g.data(0).map(|h| h.to_vec()) == Some(d2.clone())
    }));
    check("reput after read", guarded(|| {
        let mut g = base();
        g.put(0, &hx(&d));
        let a = g.data(0).map(|h| h.to_vec()) == Some(d.clone());
        g.put(0, &hx(&d2));
        a && g.data(0).map(|h| h.to_vec()) == Some(d2.clone())
    }));
    check("survives a collection elsewhere", guarded(|| {
        let mut g = base();
        g.bind(0, 1, l);
        g.put(1, &hx(&d));
        g.put(5, &hx(&d2)); // ungrouped bystander
        g.bind(2, 3, l);
        g.put(3, &hx(&d2));
        let _ = g.data(3); // collects 2 and 3
        let gone = crate::real::keys_sorted(&g) == vec![0, 1, 4, 5];
        gone && g.kid(0, l) == Some(1) && g.data(5).map(|h| h.to_vec()) == Some(d2.clone()) && g.data(1).map(|h| h.to_vec()) == Some(d.clone())
    }));
    check("data of a grouped vertex, heap and inline", guarded(|| {
        let mut g = base();
        g.bind(0, 1, l);
        g.put(0, &hx(&d));
        g.put(1, &hx(&d2));
        let a = g.data(0).map(|h| h.to_vec()) == Some(d.clone());
        let again = g.data(0).map(|h| h.to_vec()) == Some(d.clone());
        a && again && g.kid(0, l) == Some(1)
    }));
}

pub fn run_c03_sweep(_tier: &str) -> Acc {
    let labels = label_menu();
    let lens: Vec<usize> = (0..=17).collect();
    let total = labels.len() * lens.len();
    let mut acc = super::par_cases(total, |k, acc| {
        let l = labels[k / lens.len()];
        let other = labels[(k / lens.len() + 1) % labels.len()];
        let len = lens[k % lens.len()];
        crate::inflight::begin_case(|| json!({"engine": "sweep", "property": "C03", "kind": "crash-or-hang", "tags": ["C03"], "label": crate::gen::labelgen::describe(&l), "data_len": len}));
        for first in [None, Some(0x00u8), Some(0xFF)] {
            sweep_cell::<1>(acc, l, other, len, first);
            sweep_cell::<2>(acc, l, other, len, first);
            sweep_cell::<16>(acc, l, other, len, first);
            acc.nontrivial += 3;
        }
        if k % 97 == 0 {
            acc.sample(json!({"family": "value sweep", "label": crate::gen::labelgen::describe(&l), "data_bytes": len}));
        }
    });
    acc.bump("sweep_labels", labels.len() as u64);
    acc.bump("sweep_lengths", lens.len() as u64);
    acc
}

/// k groups alive (k = 1..=14: the last one uses the last usable slot), some data read, then
/// `swap` (ReloadSwap for C08, CloneSwap for C10), then everything is read: lock-step with the model.
pub fn groups_then_swap(acc: &mut Acc, prop: &'static str, k: usize, swap: Op, variant: usize) {
    let mut ops = vec![];
    for g in 0..k {
        let (x, y) = (2 * g, 2 * g + 1);
        ops.extend([Op::Add(x), Op::Add(y), Op::Bind(x, y, 0), Op::Put(y, (g % 2) as u8), Op::Put(x, 0)]);
    }
    // an ungrouped vertex with data, and reads that leave taken data behind
    ops.extend([Op::Add(30), Op::Put(30, 1), Op::Data(30)]);
    for g in 0..k {
        if (g + variant) % 3 == 0 {
            ops.push(Op::Data(2 * g));
        }
    }
    ops.push(swap);
    if variant % 2 == 1 {
        ops.push(swap);
        ops.push(swap);
    }
    let order: Vec<usize> = if variant % 2 == 0 { (0..k).collect() } else { (0..k).rev().collect() };
    for g in order {
        ops.extend([Op::Data(2 * g + 1), Op::Data(2 * g)]);
    }
    ops.push(Op::Data(30));
    if run_history_opt::<2>(acc, prop, &format!("{k} groups alive, then {}, then everything is read (variant {variant})", swap.text()), 32, &ops, true, false) {
        acc.nontrivial += 1;
        acc.bump("swap_with_k_groups_alive_runs", 1);
        if k == 14 {
            acc.bump("swap_with_14_groups_alive_runs", 1);
        }
    }
}

pub fn run_swap_family(prop: &'static str, swap: Op) -> Acc {
    // C10: the same through clone_from() into a used object
    let swaps: Vec<Op> = if swap == Op::CloneSwap { vec![Op::CloneSwap, Op::CloneFromSwap] } else { vec![swap] };
    super::par_cases(14 * 4 * swaps.len(), |i, acc| {
        let (swap, i) = (swaps[i / 56], i % 56);
        groups_then_swap(acc, prop, i / 4 + 1, swap, i % 4);
        if i % 17 == 0 {
            acc.sample(json!({"family": "k groups then swap", "k": i / 4 + 1, "variant": i % 4}));
        }
    })
}

/// C02: fill all 14 slots and drain them in both orders (the 14th group must form and die).
pub fn fourteen_groups(acc: &mut Acc, variant: usize) {
    let mut ops = vec![];
    for g in 0..14usize {
        let (x, y) = (2 * g, 2 * g + 1);
        ops.extend([Op::Add(x), Op::Add(y)]);
        if variant & 1 == 1 {
            ops.push(Op::Put(x, 0));
        }
        ops.push(if variant & 2 == 2 { Op::Bind(y, x, 0) } else { Op::Bind(x, y, 0) });
        if variant & 1 == 0 {
            ops.push(Op::Put(x, 0));
        }
    }
    let order: Vec<usize> = if variant & 4 == 4 { (0..14).rev().collect() } else { (0..14).collect() };
    for g in order {
        ops.extend([Op::Data(2 * g + 1), Op::Data(2 * g)]);
    }
    if run_history_opt::<2>(acc, "C02", &format!("14 groups alive at once, variant {variant}"), 30, &ops, false, false) {
        acc.nontrivial += 1;
        acc.bump("fourteen_groups_runs", 1);
    }
}

/// C05: runs of present vertices right at the allocator position, in stores of several capacities;
/// every id handed out is judged by the model that keeps the set of returned ids.
pub fn next_id_runs(acc: &mut Acc, cap: usize, run: usize, variant: usize) {
    let mut ops = vec![];
    // ids handed out and (variant 1) not added, then a run of explicitly added vertices right above
    let handed = variant % 3;
    for _ in 0..handed {
        ops.push(if variant & 4 == 4 { Op::AddNext } else { Op::NextId });
    }
    for v in handed..(handed + run).min(cap) {
        ops.push(Op::Add(v));
    }
    let free = cap.saturating_sub(handed + run);
    for i in 0..free.min(6) {
        ops.push(if (i + variant) % 2 == 0 { Op::NextId } else { Op::AddNext });
    }
    if run_history_opt::<2>(acc, "C05", &format!("capacity {cap}: {handed} ids handed out, {run} vertices added right above, then next_id calls (variant {variant})"), cap, &ops, false, true) {
        acc.nontrivial += 1;
        acc.bump("next_id_run_histories", 1);
    }
}

/// C05 with an allocator position beyond 16 bits: a store of 70 000 slots whose first `run` ids are
/// present (added explicitly; the prefix is applied to graph and model without judging, it is plain
/// add() of absent ids), then next_id()/add(next_id()) calls judged as usual, a collection of what
/// was added, and more next_id() calls: no id may come twice.
pub fn next_id_beyond_16_bits(acc: &mut Acc, run: usize, variant: usize) {
    const CAP: usize = 70_000;
    let what = format!("capacity {CAP}: ids 0..{run} added, then next_id calls, a collection, next_id calls (variant {variant})");
    let mut g: Sodg<2> = Sodg::empty(CAP);
    let mut m = Model::new(CAP, 2, true);
    for v in 0..run {
        g.add(v);
        m.apply(&Op::Add(v));
    }
    let mut ops: Vec<Op> = vec![];
    for i in 0..4 {
        ops.push(if (i + variant) % 2 == 0 { Op::NextId } else { Op::AddNext });
    }
    // two of the ids just added form a group and are collected; the allocator must not hand them out again
    let (a, b) = (run + 10 + variant % 2, run + 13 + variant % 2); // absent: the calls above took at most run..run+3
    ops.extend([Op::Add(a), Op::Add(b), Op::Bind(a, b, 0), Op::Put(b, 0), Op::Data(b), Op::NextId, Op::AddNext, Op::CloneSwap, Op::NextId]);
    let labels: Vec<u8> = vec![0];
    let mut done = vec![];
    for (i, op) in ops.iter().enumerate() {
        let pos = g.verif_snapshot().next_v;
        if !m.enabled(op, pos) {
            continue;
        }
        acc.evaluations += 1;
        done.push(*op);
        let (_, fs) = step(&labels, &mut g, &mut m, op);
        if let Some(f) = fs.iter().find(|f| f.tags.contains(&"C05")) {
            acc.fail("C05", &format!("family:{}", f.kind), format!("{what}: [{}] at call {} of {} after the prefix: {} (calls after the prefix: {})", f.kind, i + 1, ops.len(), f.detail, crate::model::hist_text(&done)), json!({"engine": "c05-big", "property": "C05", "run": run, "variant": variant}));
            return;
        }
        if !fs.is_empty() {
            acc.bump("diverged_not_this_property", 1);
            return;
        }
    }
    acc.nontrivial += 1;
    acc.bump("next_id_histories_beyond_16_bits", 1);
}

pub fn run_c05_family(tier: &str) -> Acc {
    let caps = [1usize, 2, 9, 10, 12, 17, 33, 64, 300, 1024];
    let mut cases = vec![];
    for cap in caps {
        for run in 0..cap.min(40) {
            for variant in 0..6 {
                cases.push((cap, run, variant));
            }
        }
    }
    let mut acc = super::par_cases(cases.len(), |i, acc| {
        let (cap, run, variant) = cases[i];
        next_id_runs(acc, cap, run, variant);
        if i % 211 == 0 {
            acc.sample(json!({"family": "next_id runs", "capacity": cap, "run": run, "variant": variant}));
        }
    });
    script_scenarios(&mut acc);
    let runs: Vec<usize> = vec![65_530, 65_533, 65_534, 65_535, 65_536, 65_537, 65_790];
    acc.merge(super::par_cases(runs.len() * 2, |i, acc| next_id_beyond_16_bits(acc, runs[i / 2], i % 2)));
    acc.merge(run_c05_dag_family(tier));
    acc
}

/// C05: ids created through script variables (and by merge) count as handed out, whether the
/// script succeeds or fails later on; after the vertices are collected they must not come again.
pub fn script_scenarios(acc: &mut Acc) {
    let scripts: [(&str, bool); 6] = [
        ("ADD($a); BIND(ROOT, $a, foo); PUT($a, CA-FE);", true),
        ("ADD($a); BIND(ROOT, $a, foo); PUT($a, CA-FE); PUT($a, xyz);", false),
        ("ADD($a); ADD($b); BIND(ROOT, $a, foo); BIND($a, $b, bar); PUT($b, 01); FOO(1);", false),
        ("ADD($a); BIND(ROOT, $a, foo); PUT($a, CA-FE); ADD($c); BIND($a, $c, x); BIND($c,", false),
        ("ADD($a); BIND(ROOT, $a, foo); PUT($a, 00-11-22-33-44-55-66-77-88-99);", true),
        ("PUT(ROOT, 01); ADD($a); BIND(ROOT, $a, foo); ADD($b)", true),
    ];
    for (si, (text, succeeds)) in scripts.iter().enumerate() {
        for cap in [8usize, 300] {
            acc.evaluations += 1;
            acc.nontrivial += 1;
            let replay = json!({"engine": "c05-script", "property": "C05", "script": text, "capacity": cap});
            let r = guarded(|| -> Result<(), String> {
                let mut g: Sodg<4> = Sodg::empty(cap);
                let mut returned: Vec<usize> = vec![];
                let root = g.next_id();
                returned.push(root);
                g.add(root);
                let before = g.keys();
                let res = sodg::Script::from_str(&text.replace("ROOT", &root.to_string())).deploy_to(&mut g);
                if res.is_ok() != *succeeds {
                    return Ok(()); // C14 judges the script itself
                }
                // every vertex the script created got its id from next_id()
                for v in g.keys() {
                    if !before.contains(&v) {
                        returned.push(v);
                    }
                }
                // read every datum: collects the group(s)
                for v in g.keys() {
                    let _ = g.data(v);
                }
                for _ in 0..3 {
                    if g.keys().len() + returned.len() >= cap {
                        break;
                    }
                    let id = g.next_id();
                    if id >= cap || g.keys().contains(&id) || returned.contains(&id) {
                        return Err(format!("after the script `{text}` (ids handed out so far {returned:?}) and the collection of what it built, next_id() returned {id}"));
                    }
                    returned.push(id);
                }
                Ok(())
            });
            match r {
                Ok(Ok(())) => acc.bump("script_scenarios_ok", 1),
                Ok(Err(e)) => acc.fail("C05", "script:id-repeated", e, replay),
                Err(e) => acc.fail("C05", "script:scenario-panicked", format!("script scenario {si} panicked: {e}"), replay),
            }
        }
    }
}


/// C05 under merges of graphs that are not trees (the fold of two left vertices into one is the only
/// place outside next_id() that touches vertices by id wholesale). No model of the fold is needed:
/// the oracle is the property itself, read off the real graph - an id handed out is below the
/// capacity, absent at that moment, and not among the ids handed out or seen appearing before.
/// Case index -> (left shape, right graph, continuation); see `dag_case_count`.
const DAG_CAP: usize = 12;
const DAG_LEFT_SHAPES: usize = 1 + 3 * 3 + 9 * 6 + 27 * 6; // kids 0..3: origins^k x injective labellings

fn dag_left(mut i: usize) -> (Vec<u8>, Vec<u8>, bool) {
    // (origin per kid: 0 = add(next_id()), 1 = add(position+1), 2 = add(position+2); label per kid; grandchild under kid 0)
    let gc = i % 2 == 1;
    i /= 2;
    let perms3: [[u8; 3]; 6] = [[0, 1, 2], [0, 2, 1], [1, 0, 2], [1, 2, 0], [2, 0, 1], [2, 1, 0]];
    if i == 0 {
        return (vec![], vec![], gc);
    }
    i -= 1;
    if i < 9 {
        return (vec![(i / 3) as u8], vec![(i % 3) as u8], gc);
    }
    i -= 9;
    if i < 54 {
        let p = perms3[i % 6];
        let o = i / 6;
        return (vec![(o % 3) as u8, (o / 3) as u8], vec![p[0], p[1]], gc);
    }
    i -= 54;
    let p = perms3[i % 6];
    let o = i / 6;
    (vec![(o % 3) as u8, (o / 3 % 3) as u8, (o / 9) as u8], p.to_vec(), gc)
}

pub fn dag_case_count(tier: &str) -> (usize, usize) {
    // right graphs: ids 0,1,2 (2 optional); slot (from,label) -> none | one of the other vertices
    let rights = if tier == "thorough" { 3usize.pow(9) + 2usize.pow(6) } else { 3usize.pow(6) + 2usize.pow(6) };
    (DAG_LEFT_SHAPES * 2, rights)
}

/// right graph `r`: first the three-vertex graphs (thorough: all 9 slots; quick: vertex 2 has no
/// edges going out), then the two-vertex graphs (6 slots, none | the other vertex).
fn dag_right(tier: &str, r: usize) -> (usize, Vec<(usize, u8, usize)>) {
    let three = if tier == "thorough" { 3usize.pow(9) } else { 3usize.pow(6) };
    let mut edges = vec![];
    if r < three {
        let slots = if tier == "thorough" { 9 } else { 6 };
        let mut x = r;
        for s in 0..slots {
            let (from, l) = (s / 3, (s % 3) as u8);
            let t = x % 3;
            x /= 3;
            if t > 0 {
                let others: Vec<usize> = (0..3).filter(|v| *v != from).collect();
                edges.push((from, l, others[t - 1]));
            }
        }
        (3, edges)
    } else {
        let mut x = r - three;
        for s in 0..6 {
            let (from, l) = (s / 3, (s % 3) as u8);
            if x % 2 == 1 {
                edges.push((from, l, 1 - from));
            }
            x /= 2;
        }
        (2, edges)
    }
}

pub fn dag_merge_case(acc: &mut Acc, tier: &str, li: usize, ri: usize) {
    let labs = [0u8, 1, 2]; // α0, x, foo
    let (origins, llabels, gc) = dag_left(li);
    let (rn, redges) = dag_right(tier, ri);
    let replay = json!({"engine": "c05-dag", "property": "C05", "tier": tier, "left": li, "right": ri});
    acc.evaluations += 1;
    let r = guarded(|| -> Result<(bool, bool), String> {
        let mut g: Sodg<4> = Sodg::empty(DAG_CAP);
        let mut handed: Vec<usize> = vec![];
        let mut story = String::new();
        let take = |g: &mut Sodg<4>, handed: &mut Vec<usize>, story: &mut String| -> Result<Option<usize>, String> {
            let pos = g.verif_snapshot().next_v;
            let keys = g.keys();
            if !(pos..DAG_CAP).any(|v| !keys.contains(&v)) {
                return Ok(None); // outside the quantifier: no absent id left at or above the position
            }
            let id = g.next_id();
            story.push_str(&format!(" next_id()={id};"));
            if id >= DAG_CAP || keys.contains(&id) || handed.contains(&id) {
                return Err(format!("{story} <- that id is {} (present before the call: {keys:?}; handed out or created before: {handed:?})", if id >= DAG_CAP { "not below the capacity" } else if keys.contains(&id) { "present" } else { "not fresh" }));
            }
            handed.push(id);
            Ok(Some(id))
        };
        let Some(root) = take(&mut g, &mut handed, &mut story)? else { return Ok((false, false)) };
        g.add(root);
        let mut kids = vec![];
        for (k, o) in origins.iter().enumerate() {
            let id = if *o == 0 {
                match take(&mut g, &mut handed, &mut story)? {
                    Some(id) => id,
                    None => return Ok((false, false)),
                }
            } else {
                let id = g.verif_snapshot().next_v + *o as usize;
                if id >= DAG_CAP || g.keys().contains(&id) {
                    return Ok((false, false));
                }
                story.push_str(&format!(" add({id});"));
                id
            };
            g.add(id);
            g.bind(root, id, crate::menu::lab(labs[llabels[k] as usize]));
            story.push_str(&format!(" bind({root},{id},{});", crate::menu::lab_text(labs[llabels[k] as usize])));
            kids.push(id);
        }
        if gc && !kids.is_empty() {
            let Some(id) = take(&mut g, &mut handed, &mut story)? else { return Ok((false, false)) };
            g.add(id);
            g.bind(kids[0], id, crate::menu::lab(0));
            story.push_str(&format!(" bind({},{id},α0);", kids[0]));
        }
        let mut h: Sodg<4> = Sodg::empty(4);
        for v in 0..rn {
            h.add(v);
        }
        for (f, l, t) in &redges {
            h.bind(*f, *t, crate::menu::lab(labs[*l as usize]));
        }
        let before = g.keys();
        let res = guarded(|| g.merge(&h, root, 0).is_ok());
        let Ok(ok) = res else { return Ok((true, false)) }; // the fold refused (conflict): no verdict here, the history ends
        story.push_str(&format!(" merge(right graph #{ri}: {} vertices, edges {:?})={};", rn, redges, if ok { "Ok" } else { "Err" }));
        for v in g.keys() {
            if !before.contains(&v) {
                handed.push(v); // created inside merge(): its id came from next_id()
            }
        }
        for i in 0..3 {
            let Some(id) = take(&mut g, &mut handed, &mut story)? else { break };
            if (i + li) % 2 == 0 {
                g.add(id);
            }
        }
        Ok((true, true))
    });
    match r {
        Ok(Ok((merged, finished))) => {
            if merged {
                acc.nontrivial += 1;
            }
            acc.bump(if finished { "dag_merge_histories_completed" } else if merged { "dag_merge_fold_refused" } else { "dag_merge_left_shape_outside_limits" }, 1);
        }
        Ok(Err(e)) => acc.fail("C05", "dag-merge:id-not-fresh", format!("merge of a graph that is not a tree, then next_id():{e}"), replay),
        Err(_) => acc.bump("dag_merge_history_panicked_after_fold", 1),
    }
}

pub fn run_c05_dag_family(tier: &str) -> Acc {
    let (lefts, rights) = dag_case_count(tier);
    let t = tier.to_string();
    let f = |i: usize, acc: &mut Acc| {
        dag_merge_case(acc, &t, i / rights, i % rights);
        if i % 9973 == 0 {
            acc.sample(json!({"family": "merge of non-trees then next_id", "left_shape": i / rights, "right_graph": i % rights}));
        }
    };
    super::par_cases(lefts * rights, f)
}

pub fn replay(engine: &str, v: &serde_json::Value) -> i32 {
    let mut acc = Acc::default();
    match engine {
        "c05-big" => next_id_beyond_16_bits(&mut acc, v["run"].as_u64().unwrap_or(0) as usize, v["variant"].as_u64().unwrap_or(0) as usize),
        "c05-dag" => dag_merge_case(&mut acc, v["tier"].as_str().unwrap_or("quick"), v["left"].as_u64().unwrap_or(0) as usize, v["right"].as_u64().unwrap_or(0) as usize),
        _ => {
            println!("unknown engine '{engine}' in replay file");
            return 2;
        }
    }
    for f in &acc.failures {
        println!("  observed [{}]: {}", f.signature, f.summary);
    }
    if acc.failures.is_empty() {
        println!("NOT REPRODUCED property=C05");
        0
    } else {
        println!("REPRODUCED property=C05");
        1
    }
}
