//! GEN - bounded-exhaustive input enumerators. Every generated case is run on
//! the real code inside `catch_unwind` and compared with a reference function.

pub mod families;
pub mod graphgen;
pub mod hexgen;
pub mod labelgen;
pub mod proggen;
pub mod treegen;

use crate::report::{Failure, Outcome};
use serde_json::{json, Value};
use std::collections::BTreeMap;

/// Accumulator of one enumeration.
#[derive(Default, serde::Serialize, serde::Deserialize)]
pub struct Acc {
    pub evaluations: u64,
    pub nontrivial: u64,
    pub failures: Vec<Failure>,
    pub fail_total: u64,
    pub counters: BTreeMap<String, u64>,
    pub samples: Vec<Value>,
}

impl Acc {
    pub fn bump(&mut self, k: &str, by: u64) {
        *self.counters.entry(k.to_string()).or_insert(0) += by;
    }
    /// record a failure; one replay object is kept per signature
    pub fn fail(&mut self, prop: &str, signature: &str, summary: String, replay: Value) {
        self.fail_total += 1;
        self.bump(&format!("failures[{signature}]"), 1);
        if !self.failures.iter().any(|f| f.signature == signature) && self.failures.len() < 16 {
            self.failures.push(Failure { prop: prop.to_string(), signature: signature.to_string(), summary, replay });
        }
    }
    pub fn sample(&mut self, v: Value) {
        if self.samples.len() < 8 {
            self.samples.push(v);
        }
    }
    pub fn merge(&mut self, o: Acc) {
        self.evaluations += o.evaluations;
        self.nontrivial += o.nontrivial;
        self.fail_total += o.fail_total;
        for (k, v) in o.counters {
            *self.counters.entry(k).or_insert(0) += v;
        }
        for f in o.failures {
            if !self.failures.iter().any(|x| x.signature == f.signature) && self.failures.len() < 16 {
                self.failures.push(f);
            }
        }
        for s in o.samples {
            self.sample(s);
        }
    }
}

/// Run `f(i, acc)` for every i in 0..total on all cores; results merged in index order.
pub fn par_cases(total: usize, f: impl Fn(usize, &mut Acc) + Sync) -> Acc {
    let threads = crate::inflight::worker_threads().max(1);
    crate::inflight::start_watchdog();
    let chunk = total.div_ceil(threads * 8).max(1);
    let nchunks = total.div_ceil(chunk);
    let next = std::sync::atomic::AtomicUsize::new(0);
    let outs: Vec<std::sync::Mutex<Option<Acc>>> = (0..nchunks).map(|_| std::sync::Mutex::new(None)).collect();
    std::thread::scope(|s| {
        for _ in 0..threads.min(nchunks.max(1)) {
            s.spawn(|| {
                crate::real::install_panic_hook();
                loop {
                    let ci = next.fetch_add(1, std::sync::atomic::Ordering::Relaxed);
                    if ci >= nchunks {
                        break;
                    }
                    let mut acc = Acc::default();
                    for i in ci * chunk..((ci + 1) * chunk).min(total) {
                        // every 16th case runs right after failing calls on unrelated objects
                        if crate::dirty::maybe(i, 16) {
                            acc.bump("cases_run_right_after_failing_calls_on_unrelated_objects", 1);
                        }
                        f(i, &mut acc);
                    }
                    crate::dirty::mark_clean();
                    *outs[ci].lock().unwrap() = Some(acc);
                }
                crate::inflight::idle();
            });
        }
    });
    let mut all = Acc::default();
    for o in outs {
        if let Some(a) = o.into_inner().unwrap() {
            all.merge(a);
        }
    }
    all
}

/// The same, with the index space cut into `slices` contiguous parts that are run one after
/// the other in child processes of this binary (same command line). The subject leaks memory
/// (emap never drops its elements: about 1 KB per tree-merge case), so a long enumeration
/// must hand its memory back now and then. Results are merged in index order.
pub fn par_cases_sliced(total: usize, slices: usize, f: impl Fn(usize, &mut Acc) + Sync) -> Acc {
    let range = |k: usize| (k * total / slices, (k + 1) * total / slices);
    if let Ok(k) = std::env::var("VX_SLICE_K") {
        // child: one slice, written to the file the parent named
        let k: usize = k.parse().expect("VX_SLICE_K");
        let (lo, hi) = range(k);
        let acc = par_cases(hi - lo, |i, acc| f(lo + i, acc));
        let out = std::env::var("VX_SLICE_OUT").expect("VX_SLICE_OUT");
        std::fs::write(out, serde_json::to_string(&acc).expect("acc json")).expect("write slice result");
        crate::real::remove_scratch_dir();
        std::process::exit(0);
    }
    if slices <= 1 || crate::inflight::journal_mode() {
        return par_cases(total, f);
    }
    let exe = std::env::current_exe().expect("current exe");
    let args: Vec<String> = std::env::args().skip(1).collect();
    let mut all = Acc::default();
    for k in 0..slices {
        let out = crate::real::scratch_dir().join(format!("slice-{k}.json"));
        let status = std::process::Command::new(&exe).args(&args).env("VX_SLICE_K", k.to_string()).env("VX_SLICE_OUT", &out).status().expect("spawn slice");
        if !status.success() {
            // a crash, a hang or a harness panic in the child: end the same way, the driver takes over
            crate::real::remove_scratch_dir();
            let code = status.code().unwrap_or_else(|| 128 + std::os::unix::process::ExitStatusExt::signal(&status).unwrap_or(6));
            std::process::exit(code);
        }
        let txt = std::fs::read_to_string(&out).expect("slice result");
        let acc: Acc = serde_json::from_str(&txt).expect("slice result json");
        all.merge(acc);
        let _ = std::fs::remove_file(&out);
    }
    all
}

pub fn outcome(prop: &str, tier: &str, level: &str, rule: &str, acc: Acc, exhaustive: bool, extra: Value, wall_s: f64, assumptions: Vec<String>, machinery: Vec<String>) -> Outcome {
    let mut cov = json!({
        "evaluations": acc.evaluations,
        "distinct_nontrivial": acc.nontrivial,
        "rule": rule,
        "samples": acc.samples,
        "exhaustive": exhaustive,
        "counters": acc.counters,
        "failing_cases": acc.fail_total,
    });
    if let (Value::Object(a), Value::Object(b)) = (&mut cov, extra) {
        for (k, v) in b {
            a.insert(k, v);
        }
    }
    Outcome {
        prop: prop.to_string(),
        tier: tier.to_string(),
        level: level.to_string(),
        coverage: cov,
        assumptions,
        failures: acc.failures,
        failure_total: acc.fail_total,
        wall_s,
        machinery,
    }
}

pub fn replay(engine: &str, v: &Value) -> i32 {
    match engine {
        "c07" => crate::c07::replay(v),
        "graphgen" => graphgen::replay(v),
        "hexgen" => hexgen::replay(v),
        "labelgen" => labelgen::replay(v),
        "proggen" => proggen::replay(v),
        "treegen" => treegen::replay(v),
        other => families::replay(other, v),
    }
}
