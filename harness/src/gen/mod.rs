//! GEN - bounded-exhaustive input enumerators.

use serde_json::Value;

pub fn replay(engine: &str, _v: &Value) -> i32 {
    println!("unknown engine '{engine}' in replay file");
    2
}
