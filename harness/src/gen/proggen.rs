//! PROGGEN: C14 (a script does exactly what the same API calls would do).

use super::Acc;
use crate::real::guarded;
use crate::report::Outcome;
use serde_json::{json, Value};
use sodg::verif::Snapshot;
use sodg::{Hex, Label, Script, Sodg};
use std::collections::HashMap;
use std::time::Instant;

const CAP: usize = 6;

#[derive(Debug, Clone, PartialEq, Eq)]
pub enum Id {
    Lit(usize),
    Var(String),
}
#[derive(Debug, Clone, PartialEq)]
pub enum Cmd {
    Add(Id),
    Bind(Id, Id, Label),
    Put(Id, Vec<u8>),
}
#[derive(Debug, PartialEq)]
pub enum Cls {
    Ok(Vec<Cmd>),
    Malformed(Vec<Cmd>),
    Grey,
}

// ------------------------------------------------ conservative reference parser
// None = grey, Some(None) = definitely malformed, Some(Some(x)) = well-formed

pub fn label_class(t: &str) -> Option<Option<Label>> {
    let n = t.chars().count();
    if n == 0 || t.chars().any(char::is_whitespace) {
        return None;
    }
    if let Some(tail) = t.strip_prefix('α') {
        if !tail.is_empty() && tail.chars().all(|c| c.is_ascii_digit()) && (tail == "0" || !tail.starts_with('0')) && tail.parse::<usize>().is_ok() {
            return Some(Some(Label::Alpha(tail.parse().unwrap())));
        }
        if tail.parse::<usize>().is_ok() || (!tail.is_empty() && tail.chars().all(|c| c.is_ascii_digit())) {
            return None; // "+5", "05", overflow: not settled
        }
        return Some(None);
    }
    if n > 8 {
        return Some(None);
    }
    if n == 1 {
        return Some(Some(Label::Greek(t.chars().next().unwrap())));
    }
    Some(Some(crate::menu::str_label(t)))
}

pub fn id_class(t: &str) -> Option<Option<Id>> {
    if let Some(name) = t.strip_prefix('$') {
        if name.is_empty() || name.chars().any(char::is_whitespace) {
            return None;
        }
        return Some(Some(Id::Var(name.to_string())));
    }
    let d = t.strip_prefix('ν').unwrap_or(t);
    if !d.is_empty() && d.chars().all(|c| c.is_ascii_digit()) {
        return match d.parse::<usize>() {
            Ok(v) => Some(Some(Id::Lit(v))),
            Err(_) => None,
        };
    }
    if d.len() > 1 && d.starts_with('+') && d[1..].chars().all(|c| c.is_ascii_digit()) {
        return None;
    }
    Some(None)
}

pub fn data_class(t: &str) -> Option<Option<Vec<u8>>> {
    let d: String = t.chars().filter(|c| !matches!(c, ' ' | '\t' | '\n' | '\r' | '-')).collect();
    if !d.is_empty() && d.len() % 2 == 0 && d.chars().all(|c| c.is_ascii_hexdigit()) {
        Some(Some((0..d.len()).step_by(2).map(|i| u8::from_str_radix(&d[i..i + 2], 16).unwrap()).collect()))
    } else if d.chars().any(|c| !c.is_ascii() ) {
        None
    } else {
        Some(None)
    }
}

pub fn classify(text: &str) -> Cls {
    // comments: "#" up to and including the next newline; an unterminated one is grey
    let mut clean = String::new();
    let mut rest = text;
    loop {
        match rest.find('#') {
            None => {
                clean.push_str(rest);
                break;
            }
            Some(p) => {
                clean.push_str(&rest[..p]);
                match rest[p..].find('\n') {
                    Some(q) => rest = &rest[p + q + 1..],
                    None => return Cls::Grey,
                }
            }
        }
    }
    let mut cmds = vec![];
    for raw in clean.split(';') {
        let c = raw.trim();
        if c.is_empty() {
            continue;
        }
        let name: String = c.chars().take_while(char::is_ascii_uppercase).collect();
        let after = &c[name.len()..];
        let sp = after.trim_start_matches(' ');
        if name.is_empty() {
            return Cls::Malformed(cmds);
        }
        if !sp.starts_with('(') {
            if after.trim_start().starts_with('(') {
                return Cls::Grey; // tab/newline between name and '('
            }
            return Cls::Malformed(cmds);
        }
        let inner = &sp[1..];
        let Some(close) = inner.find(')') else { return Cls::Malformed(cmds) };
        if close + 1 != inner.len() {
            return Cls::Malformed(cmds);
        }
        let argtxt = &inner[..close];
        let arity = match name.as_str() {
            "ADD" => 1,
            "BIND" => 3,
            "PUT" => 2,
            _ => return Cls::Malformed(cmds),
        };
        let pieces: Vec<&str> = argtxt.split(',').map(str::trim).collect();
        let args: Vec<&str> = pieces.iter().copied().filter(|p| !p.is_empty()).collect();
        let had_empty = pieces.len() != args.len() && !(pieces.len() == 1 && args.is_empty());
        if args.len() < arity {
            if had_empty {
                return Cls::Grey;
            }
            return Cls::Malformed(cmds);
        }
        if args.len() > arity || had_empty {
            return Cls::Grey;
        }
        macro_rules! get {
            ($e:expr) => {
                match $e {
                    None => return Cls::Grey,
                    Some(None) => return Cls::Malformed(cmds),
                    Some(Some(x)) => x,
                }
            };
        }
        let cmd = match name.as_str() {
            "ADD" => Cmd::Add(get!(id_class(args[0]))),
            "BIND" => {
                let a = get!(id_class(args[0]));
                let b = get!(id_class(args[1]));
                Cmd::Bind(a, b, get!(label_class(args[2])))
            }
            _ => {
                let a = get!(id_class(args[0]));
                Cmd::Put(a, get!(data_class(args[1])))
            }
        };
        cmds.push(cmd);
    }
    Cls::Ok(cmds)
}

// ------------------------------------------------ direct execution

/// The same calls made directly. None if a graph precondition would be broken
/// (then the statement promises nothing) or a call panics.
pub fn direct<const N: usize>(cmds: &[Cmd]) -> Option<Sodg<N>> {
    let mut g: Sodg<N> = Sodg::empty(CAP);
    let mut vars: HashMap<String, usize> = HashMap::new();
    let mut resolve = |g: &mut Sodg<N>, id: &Id| -> Option<usize> {
        match id {
            Id::Lit(v) => Some(*v),
            Id::Var(name) => {
                if let Some(v) = vars.get(name) {
                    return Some(*v);
                }
                if g.keys().len() >= CAP || !(g.verif_snapshot().next_v..CAP).any(|v| !g.keys().contains(&v)) {
                    return None;
                }
                let v = guarded(|| g.next_id()).ok()?;
                vars.insert(name.clone(), v);
                Some(v)
            }
        }
    };
    for c in cmds {
        match c {
            Cmd::Add(id) => {
                let v = resolve(&mut g, id)?;
                if v >= CAP {
                    return None;
                }
                guarded(|| g.add(v)).ok()?;
            }
            Cmd::Bind(a, b, l) => {
                let v1 = resolve(&mut g, a)?;
                let v2 = resolve(&mut g, b)?;
                let keys = g.keys();
                if v1 == v2 || !keys.contains(&v1) || !keys.contains(&v2) {
                    return None;
                }
                let kids: Vec<Label> = g.kids(v1).map(|(a, _)| *a).collect();
                if !kids.contains(l) && kids.len() >= N {
                    return None;
                }
                guarded(|| g.bind(v1, v2, *l)).ok()?;
            }
            Cmd::Put(id, d) => {
                let v = resolve(&mut g, id)?;
                if !g.keys().contains(&v) {
                    return None;
                }
                guarded(|| g.put(v, &Hex::from_vec(d.clone()))).ok()?;
            }
        }
    }
    Some(g)
}

fn without_pos(mut s: Snapshot) -> Snapshot {
    s.next_v = 0;
    s
}

/// Judge one text. Returns the class name.
pub fn check_text<const N: usize>(acc: &mut Acc, text: &str, origin: &str) -> &'static str {
    acc.evaluations += 1;
    let cls = classify(text);
    let replay = json!({"engine": "proggen", "property": "C14", "text": text, "origin": origin});
    let mut g: Sodg<N> = Sodg::empty(CAP);
    let r = guarded(|| Script::from_str(text).deploy_to(&mut g).map_err(|e| format!("{e:#}")));
    match cls {
        Cls::Grey => {
            acc.bump("grey_texts", 1);
            "grey"
        }
        Cls::Ok(cmds) => {
            let Some(want) = direct::<N>(&cmds) else {
                acc.bump("well_formed_but_breaking_a_graph_precondition", 1);
                return "skipped";
            };
            acc.nontrivial += 1;
            acc.bump("well_formed_texts", 1);
            match r {
                Err(e) => acc.fail("C14", "script:panic-on-well-formed", format!("deploying the well-formed script {text:?} panicked: {e}"), replay),
                Ok(Err(e)) => acc.fail("C14", "script:well-formed-rejected", format!("the well-formed script {text:?} was rejected: {e}"), replay),
                Ok(Ok(n)) => {
                    if n != cmds.len() {
                        acc.fail("C14", "script:wrong-count", format!("deploy_to({text:?}) returned {n} for {} commands", cmds.len()), replay.clone());
                    }
                    if g.verif_snapshot() != want.verif_snapshot() {
                        acc.fail("C14", "script:effect-differs-from-direct-calls", format!("after deploying {text:?} the graph is {:?} but the same calls made directly give {:?}", format!("{g:?}"), format!("{want:?}")), replay);
                    }
                }
            }
            "well-formed"
        }
        Cls::Malformed(prefix) => {
            let Some(want) = direct::<N>(&prefix) else {
                acc.bump("malformed_after_breaking_a_graph_precondition", 1);
                return "skipped";
            };
            acc.nontrivial += 1;
            acc.bump("malformed_texts", 1);
            match r {
                Err(e) => acc.fail("C14", "script:panic-on-malformed", format!("the malformed script {text:?} made deploy_to panic instead of returning Err: {e}"), replay),
                Ok(Ok(n)) => acc.fail("C14", "script:malformed-accepted", format!("the malformed script {text:?} was accepted (returned {n})"), replay),
                Ok(Err(_)) => {
                    // the next_id() calls of the commands before the malformed one are among their effects:
                    // the allocator may be further on (the malformed command may have taken an id), never behind
                    if g.verif_snapshot().next_v < want.verif_snapshot().next_v {
                        acc.fail("C14", "script:prefix-ids-handed-back", format!("after the malformed script {text:?} the allocator position is {} but the commands before the malformed one leave it at {}: ids given to $variables would be handed out again", g.verif_snapshot().next_v, want.verif_snapshot().next_v), replay.clone());
                    }
                    if without_pos(g.verif_snapshot()) != without_pos(want.verif_snapshot()) {
                        acc.fail("C14", "script:prefix-not-applied", format!("after the malformed script {text:?} the graph is {:?} but the commands before the malformed one give {:?}", format!("{g:?}"), format!("{want:?}")), replay);
                    }
                }
            }
            "malformed"
        }
    }
}

// ------------------------------------------------ programs and renderers

#[derive(Clone, Copy, Debug, PartialEq, Eq)]
pub enum PId {
    Lit(usize),
    Var(usize),
}
#[derive(Clone, Copy, Debug, PartialEq, Eq)]
pub enum PCmd {
    Add(PId),
    Bind(PId, PId, usize),
    Put(PId, usize),
}

const LABELS: [&str; 4] = ["foo", "α1", "x", "ρ"];
const DATA: [&[u8]; 3] = [&[0xAB], &[1, 2, 3, 4, 5, 6, 7, 0xF8], &[9, 8, 7, 6, 5, 4, 3, 2, 0xC1]];

#[derive(Clone, Copy, Debug)]
pub struct Style {
    pub ws: u8,       // 0 compact, 1 spaces, 2 newlines and tabs
    pub name_sp: u8,  // spaces between name and '('
    pub nu: bool,     // ν-prefixed literals
    pub var: u8,      // 0: $a/$b, 1: $ν1/$ν2
    pub hex: u8,      // 0 upper, 1 lower with dashes, 2 mixed with inner blanks, 3 wrapped over lines (tab, LF, CRLF inside the literal)
    pub comments: u8, // 0 none, 1 between commands, 2 also at the top, with ; ( # inside, 3 also after the last command
    pub empties: bool,
    pub final_semi: bool,
}

pub fn all_styles() -> Vec<Style> {
    let mut v = vec![];
    for ws in 0..3 {
        for name_sp in 0..3 {
            for nu in [false, true] {
                for var in 0..2 {
                    for hex in 0..4 {
                        for comments in 0..4 {
                            for empties in [false, true] {
                                for final_semi in [false, true] {
                                    v.push(Style { ws, name_sp, nu, var, hex, comments, empties, final_semi });
                                }
                            }
                        }
                    }
                }
            }
        }
    }
    v
}

pub fn menu_styles() -> Vec<Style> {
    let base = Style { ws: 0, name_sp: 0, nu: false, var: 0, hex: 0, comments: 0, empties: false, final_semi: true };
    vec![
        base,
        Style { ws: 1, ..base },
        Style { ws: 2, name_sp: 2, ..base },
        Style { nu: true, var: 1, ..base },
        Style { hex: 1, ..base },
        Style { hex: 2, ws: 1, ..base },
        Style { hex: 3, ..base },
        Style { comments: 1, ..base },
        Style { comments: 2, ws: 2, ..base },
        Style { comments: 3, ..base },
        Style { empties: true, final_semi: false, ..base },
        Style { ws: 2, name_sp: 1, nu: true, var: 1, hex: 2, comments: 2, empties: true, final_semi: false },
        Style { final_semi: false, ..base },
        Style { ws: 1, name_sp: 1, nu: true, var: 0, hex: 1, comments: 1, empties: false, final_semi: true },
    ]
}

pub fn render(p: &[PCmd], s: &Style) -> String {
    let pad = |t: &str| match s.ws {
        0 => t.to_string(),
        1 => format!(" {t}  "),
        _ => format!("\n\t{t} \n"),
    };
    let id = |i: &PId| match i {
        PId::Lit(v) => {
            if s.nu {
                format!("ν{v}")
            } else {
                format!("{v}")
            }
        }
        PId::Var(k) => {
            if s.var == 0 {
                format!("${}", ["a", "b"][*k])
            } else {
                format!("$ν{}", k + 1)
            }
        }
    };
    let hex = |d: usize| {
        let b = DATA[d];
        match s.hex {
            0 => b.iter().map(|x| format!("{x:02X}")).collect::<String>(),
            1 => b.iter().map(|x| format!("{x:02x}")).collect::<Vec<_>>().join("-"),
            2 => b.iter().enumerate().map(|(i, x)| if i % 2 == 0 { format!("{x:02X}") } else { format!("{x:02x}") }).collect::<Vec<_>>().join(" - "),
            _ => b.iter().enumerate().map(|(i, x)| format!("{x:02X}{}", ["\n\t", "-\r\n ", "\t"][i % 3])).collect::<String>(),
        }
    };
    let sp = " ".repeat(s.name_sp as usize);
    let mut out = String::new();
    if s.comments >= 2 {
        out.push_str("# top; comment with (parens) and a # inside\n");
    }
    for (i, c) in p.iter().enumerate() {
        let txt = match c {
            PCmd::Add(a) => format!("ADD{sp}({})", pad(&id(a))),
            PCmd::Bind(a, b, l) => format!("BIND{sp}({},{},{})", pad(&id(a)), pad(&id(b)), pad(LABELS[*l])),
            PCmd::Put(a, d) => format!("PUT{sp}({},{})", pad(&id(a)), pad(&hex(*d))),
        };
        out.push_str(&pad(&txt));
        let last = i + 1 == p.len();
        if !last || s.final_semi {
            out.push(';');
        }
        if s.empties && !last {
            out.push_str(" ;;");
        }
        if s.comments >= 1 && !last {
            out.push_str(" # then; the next (one)\n");
        }
        if s.comments == 3 && last {
            // a comment on the last line needs a final semicolon before it (else it belongs to the command)
            if !s.final_semi {
                out.push(';');
            }
            out.push_str(" # done; that (was) all\n");
        }
    }
    out
}

/// The commands a program stands for (what the classifier must find as well).
pub fn to_cmds(p: &[PCmd], s: &Style) -> Vec<Cmd> {
    let id = |i: &PId| match i {
        PId::Lit(v) => Id::Lit(*v),
        PId::Var(k) => Id::Var(if s.var == 0 { ["a", "b"][*k].to_string() } else { format!("ν{}", k + 1) }),
    };
    p.iter()
        .map(|c| match c {
            PCmd::Add(a) => Cmd::Add(id(a)),
            PCmd::Bind(a, b, l) => Cmd::Bind(id(a), id(b), label_class(LABELS[*l]).unwrap().unwrap()),
            PCmd::Put(a, d) => Cmd::Put(id(a), DATA[*d].to_vec()),
        })
        .collect()
}

/// All programs of exactly `len` commands whose direct execution respects the preconditions.
pub fn programs<const N: usize>(len: usize, ids: &[PId], labels: usize, data: usize) -> Vec<Vec<PCmd>> {
    let mut cmds = vec![];
    for a in ids {
        cmds.push(PCmd::Add(*a));
    }
    for a in ids {
        for b in ids {
            for l in 0..labels {
                cmds.push(PCmd::Bind(*a, *b, l));
            }
        }
    }
    for a in ids {
        for d in 0..data {
            cmds.push(PCmd::Put(*a, d));
        }
    }
    let base = Style { ws: 0, name_sp: 0, nu: false, var: 0, hex: 0, comments: 0, empties: false, final_semi: true };
    let mut out = vec![];
    let mut level: Vec<Vec<PCmd>> = vec![vec![]];
    for _ in 0..len {
        let mut next = vec![];
        for p in &level {
            for c in &cmds {
                let mut q = p.clone();
                q.push(*c);
                if direct::<N>(&to_cmds(&q, &base)).is_some() {
                    next.push(q);
                }
            }
        }
        level = next;
    }
    out.extend(level);
    out
}

const FAULTS: [char; 13] = ['(', ')', ';', ',', '#', '$', 'ν', 'x', '9', '-', ' ', '\n', 'A'];

/// every single-character deletion, replacement and insertion
pub fn faults(text: &str) -> Vec<String> {
    let chars: Vec<char> = text.chars().collect();
    let mut out = vec![];
    for i in 0..chars.len() {
        let mut d = chars.clone();
        d.remove(i);
        out.push(d.iter().collect());
        for f in FAULTS {
            if chars[i] != f {
                let mut r = chars.clone();
                r[i] = f;
                out.push(r.iter().collect());
            }
        }
    }
    for i in 0..=chars.len() {
        for f in FAULTS {
            let mut r = chars.clone();
            r.insert(i, f);
            out.push(r.iter().collect());
        }
    }
    out
}

pub fn run_c14(tier: &str) -> Outcome {
    let t0 = Instant::now();
    let quick = crate::props::quick(tier);
    let full_ids = [PId::Lit(0), PId::Lit(1), PId::Lit(2), PId::Var(0), PId::Var(1)];
    let small_ids = [PId::Lit(0), PId::Lit(1), PId::Var(0)];
    let mut progs: Vec<(Vec<PCmd>, bool)> = vec![]; // (program, render with every style?)
    let maxlen = if quick { 3 } else { 5 };
    for len in 1..=maxlen {
        for p in programs::<3>(len, &full_ids, if len <= 3 { 4 } else { 3 }, 3) {
            progs.push((p, len <= 2));
        }
    }
    // longer programs over a reduced alphabet
    let (rl_from, rl_to) = if quick { (4, 4) } else { (6, 8) };
    for len in rl_from..=rl_to {
        for p in programs::<3>(len, &[PId::Lit(0), PId::Var(0)], 1, 1) {
            progs.push((p, false));
        }
    }
    let all = all_styles();
    let menu = menu_styles();
    let n_progs = progs.len();
    let mut acc = super::par_cases(n_progs, |i, acc| {
        let (p, full) = &progs[i];
        let styles: &[Style] = if *full { &all } else { &menu };
        for (si, s) in styles.iter().enumerate() {
            let text = render(p, s);
            if si == 0 {
                crate::inflight::begin_case(|| json!({"engine": "proggen", "property": "C14", "text": text, "kind": "crash-or-hang", "tags": ["C14"]}));
            }
            // the renderer only produces legal formatting: the classifier must see exactly the program
            match classify(&text) {
                Cls::Ok(c) if c == to_cmds(p, s) => {}
                other => {
                    acc.fail("C14", "machinery:renderer-and-classifier-disagree", format!("the reference parser reads {text:?} as {other:?}"), json!({"engine": "proggen", "property": "C14", "text": text}));
                    continue;
                }
            }
            check_text::<3>(acc, &text, "rendered program");
            if (i * 31 + si) % 200_003 == 0 {
                acc.sample(json!({"script": text}));
            }
        }
        acc.bump("programs", 1);
    });
    // the same on Sodg<1>: every vertex is full after its first edge, so re-binding a label
    // (which needs no free room) and binding a second one (a broken precondition: skipped) differ
    let n1_progs: Vec<Vec<PCmd>> = {
        let mut v = vec![];
        for len in 1..=(if quick { 4 } else { 6 }) {
            v.extend(programs::<1>(len, &[PId::Lit(0), PId::Lit(1), PId::Var(0)], 2, 1));
        }
        v
    };
    let n1acc = super::par_cases(n1_progs.len(), |i, acc| {
        for s in [&menu[0], &menu[9]] {
            let text = render(&n1_progs[i], s);
            let before = acc.failures.len();
            check_text::<1>(acc, &text, "rendered program on Sodg<1>");
            for f in acc.failures[before..].iter_mut() {
                if let Value::Object(m) = &mut f.replay {
                    m.insert("n".into(), json!(1));
                }
            }
        }
        acc.bump("programs_on_sodg1", 1);
    });
    acc.merge(n1acc);
    // scripts with zero commands: nothing happens, the count is 0
    for text in ["", " ", "\n", ";", ";;", "# only a comment\n", " # c1\n# c2; with (stuff)\n ; \n"] {
        acc.evaluations += 1;
        acc.nontrivial += 1;
        let mut g: Sodg<3> = Sodg::empty(CAP);
        let r = guarded(|| Script::from_str(text).deploy_to(&mut g).map_err(|e| format!("{e:#}")));
        if r != Ok(Ok(0)) || g.verif_snapshot() != Sodg::<3>::empty(CAP).verif_snapshot() {
            acc.fail("C14", "script:empty-program", format!("the script {text:?} has no commands: it must return Ok(0) and change nothing, but gives {r:?}"), json!({"engine": "proggen", "property": "C14", "text": text}));
        }
    }
    // single-fault corruption
    let fault_progs: Vec<Vec<PCmd>> = {
        let mut v = vec![];
        for len in 1..=(if quick { 2 } else { 4 }) {
            v.extend(programs::<3>(len, &small_ids, 2, 2));
        }
        v
    };
    let fstyles = [menu[0], menu[9]];
    let facc = super::par_cases(fault_progs.len(), |i, acc| {
        for s in &fstyles {
            let text = render(&fault_progs[i], s);
            crate::inflight::begin_case(|| json!({"engine": "proggen", "property": "C14", "text": text, "kind": "crash-or-hang", "tags": ["C14"], "note": "some single-character corruption of this text"}));
            for (k, f) in faults(&text).into_iter().enumerate() {
                let class = check_text::<3>(acc, &f, "single-character corruption");
                acc.bump("corrupted_texts", 1);
                if (i * 7919 + k) % 300_007 == 0 {
                    acc.sample(json!({"corrupted_script": f, "class": class}));
                }
            }
        }
    });
    acc.merge(facc);
    let mut machinery = vec![];
    for k in ["well_formed_texts", "malformed_texts", "corrupted_texts", "programs"] {
        if acc.counters.get(k).copied().unwrap_or(0) == 0 && acc.fail_total == 0 {
            machinery.push(format!("vacuous run: '{k}' is zero"));
        }
    }
    if acc.failures.iter().any(|f| f.signature.starts_with("machinery:")) {
        machinery.push("the renderer produced a text that the reference parser does not read back as the program".to_string());
        acc.failures.retain(|f| !f.signature.starts_with("machinery:"));
    }
    let rule = format!(
        "PROGGEN: every program of <= {maxlen} ADD/BIND/PUT commands over ids {{0,1,2,$a,$b}}, labels {{foo, α1, x}} (and the single non-ASCII letter ρ in programs of <= 3 commands), data {{1, 8, 9 bytes}} (and of {rl_from}..={rl_to} commands over {{0,$a}}) whose direct execution respects the graph preconditions; each rendered with a menu of 14 legal formattings, programs of <= 2 commands with the full product of 2304 (whitespace, spaces before the parenthesis, ν-prefixes, $ν1-style names, hex case/dashes/blanks/line breaks inside the literal, comments containing ; ( #, empty commands, final semicolon); the programs over a reduced alphabet also on Sodg<1>; oracle: complete internal state after deploy_to == state after the same calls made directly, count == number of commands. PLUS every single-character deletion/replacement/insertion ({} fault characters) at every position of every program of <= {} commands over a reduced alphabet in two renderings, judged by a conservative reference parser: well-formed -> equals its own direct calls; definitely malformed at command i -> Err, no panic, graph == commands 0..i; grey -> no demand. distinct_nontrivial = texts with a settled class",
        FAULTS.len(),
        if quick { 2 } else { 4 }
    );
    super::outcome("C14", tier, "exploration", &rule, acc, true, json!({}), t0.elapsed().as_secs_f64(), vec!["grey zone (not judged): extra or empty arguments, `+5`, comment without terminating newline, tab/newline between command name and parenthesis, ids beyond the capacity, scripts whose direct calls break a graph precondition".to_string()], machinery)
}

pub fn replay(v: &Value) -> i32 {
    let mut acc = Acc::default();
    let text = v["text"].as_str().unwrap_or("");
    println!("script: {text:?}\nclass: {:?}", classify(text));
    if v["n"].as_u64() == Some(1) {
        check_text::<1>(&mut acc, text, "replay");
    } else {
        check_text::<3>(&mut acc, text, "replay");
    }
    for f in &acc.failures {
        println!("  {}", f.summary);
    }
    if acc.fail_total > 0 {
        println!("REPRODUCED property=C14");
        1
    } else {
        println!("NOT REPRODUCED property=C14");
        0
    }
}
