//! HEXGEN: C15 (Hex is its byte string) and C16 (concat).

use super::Acc;
use crate::real::guarded;
use crate::report::Outcome;
use serde_json::{json, Value};
use sodg::Hex;
use std::str::FromStr;
use std::time::Instant;

#[derive(Clone, Debug)]
pub struct Case {
    pub bytes: Vec<u8>,
    /// "from_slice" | "from_vec" | "from_str" | "Bytes+padding" | "Vector"
    pub rep: &'static str,
}

impl Case {
    pub fn build(&self) -> Option<Hex> {
        Some(match self.rep {
            "from_slice" => Hex::from_slice(&self.bytes),
            "from_vec" => Hex::from_vec(self.bytes.clone()),
            "from_str" => Hex::from_str(&ref_print(&self.bytes)).ok()?,
            "Bytes+padding" => {
                let mut a = [0xEEu8; 8];
                a[..self.bytes.len()].copy_from_slice(&self.bytes);
                Hex::Bytes(a, self.bytes.len())
            }
            "Vector" => Hex::Vector(self.bytes.clone()),
            _ => unreachable!(),
        })
    }
    pub fn json(&self) -> Value {
        json!({"bytes": self.bytes, "representation": self.rep})
    }
}

pub fn ref_print(b: &[u8]) -> String {
    crate::menu::hex_text(b)
}

fn patterns(len: usize) -> Vec<Vec<u8>> {
    let mut v = vec![
        (0..len).map(|i| (i + 1) as u8).collect::<Vec<u8>>(),
        vec![0u8; len],
        vec![0xFFu8; len],
        (0..len).map(|i| (0x80 + i) as u8).collect(),
    ];
    v.dedup();
    if len == 0 {
        v.truncate(1);
    }
    v
}

pub fn domain(max_len: usize) -> Vec<Case> {
    let mut out = vec![];
    for len in 0..=max_len {
        for b in patterns(len) {
            let reps: &[&'static str] = if len <= 8 { &["from_slice", "from_vec", "from_str", "Bytes+padding", "Vector"] } else { &["from_slice", "from_vec", "from_str", "Vector"] };
            for r in reps {
                out.push(Case { bytes: b.clone(), rep: r });
            }
        }
    }
    out
}

fn idx_set(len: usize) -> Vec<usize> {
    let mut v: Vec<usize> = (0..=len + 2).collect();
    v.push(usize::MAX);
    v.push(usize::MAX - 1);
    v
}

type Out<T> = Result<T, ()>;
fn run<T>(f: impl FnOnce() -> T) -> Out<T> {
    guarded(f).map_err(|_| ())
}

fn check<T: PartialEq + std::fmt::Debug>(acc: &mut Acc, c: &Case, what: &str, got: Out<T>, want: Out<T>) {
    acc.evaluations += 1;
    if got != want {
        let show = |o: &Out<T>| match o {
            Ok(v) => format!("{v:?}"),
            Err(()) => "panic".to_string(),
        };
        let sig = format!("hex:{}", what.split('[').next().unwrap_or(what).split('(').next().unwrap_or(what));
        acc.fail(
            "C15",
            &sig,
            format!("{what} on the {}-byte string {} built by {}: got {}, the byte slice gives {}", c.bytes.len(), ref_print(&c.bytes), c.rep, show(&got), show(&want)),
            json!({"engine": "hexgen", "property": "C15", "case": c.json(), "operation": what, "expected": show(&want), "observed": show(&got)}),
        );
    }
}

pub fn check_case(acc: &mut Acc, c: &Case) {
    let Some(h) = c.build() else {
        acc.evaluations += 1;
        acc.fail("C15", "hex:from_str-rejects-own-print", format!("from_str rejects the printed form of {}", ref_print(&c.bytes)), json!({"engine": "hexgen", "property": "C15", "case": c.json(), "operation": "build"}));
        return;
    };
    let b = c.bytes.clone();
    let len = b.len();
    check(acc, c, "bytes()", run(|| h.bytes().to_vec()), Ok(b.clone()));
    check(acc, c, "len()", run(|| h.len()), Ok(len));
    check(acc, c, "is_empty()", run(|| h.is_empty()), Ok(len == 0));
    check(acc, c, "to_vec()", run(|| h.to_vec()), Ok(b.clone()));
    check(acc, c, "print()", run(|| h.print()), Ok(ref_print(&b)));
    check(acc, c, "Display", run(|| format!("{h}")), Ok(ref_print(&b)));
    check(acc, c, "Debug", run(|| format!("{h:?}")), Ok(ref_print(&b)));
    check(acc, c, "from_str(print())", run(|| Hex::from_str(&h.print()).ok().map(|x| (x.bytes().to_vec(), x == h))), Ok(Some((b.clone(), true))));
    check(acc, c, "to_i64()", run(|| h.to_i64().ok()), Ok(<[u8; 8]>::try_from(b.as_slice()).ok().map(i64::from_be_bytes)));
    check(acc, c, "to_f64()", run(|| h.to_f64().ok().map(f64::to_bits)), Ok(<[u8; 8]>::try_from(b.as_slice()).ok().map(|a| f64::from_be_bytes(a).to_bits())));
    // what print() says follows the bytes: printed, edited in place, printed again; then the value is
    // dropped and another one of the same length is printed (an answer remembered by address would be stale)
    if len > 0 {
        let mut e = b.clone();
        e[0] ^= 0xA5;
        e[len - 1] = e[len - 1].wrapping_add(0x11);
        check(
            acc,
            c,
            "print(); edit in place; print()",
            run(|| {
                let mut x = h.clone();
                let _ = (x.print(), format!("{x}"), format!("{x:?}"));
                x[0] ^= 0xA5;
                x[len - 1] = x[len - 1].wrapping_add(0x11);
                let again = (x.print(), format!("{x}"), format!("{x:?}"), x.to_vec());
                drop(x);
                let y = Hex::from_vec(vec![0x77; len]);
                (again, y.print())
            }),
            Ok(((ref_print(&e), ref_print(&e), ref_print(&e), e.clone()), ref_print(&vec![0x77; len]))),
        );
    }
    for i in idx_set(len) {
        check(acc, c, &format!("index[{i}]"), run(|| h[i]), run(|| b[i]));
        check(acc, c, &format!("byte_at({i})"), run(|| h.byte_at(i)), run(|| b[i]));
        check(
            acc,
            c,
            &format!("index_mut[{i}]"),
            run(|| {
                let mut x = h.clone();
                x[i] = 0x5A;
                x.bytes().to_vec()
            }),
            run(|| {
                let mut x = b.clone();
                x[i] = 0x5A;
                x
            }),
        );
        check(acc, c, &format!("tail({i})"), run(|| h.tail(i).bytes().to_vec()), run(|| b[i..].to_vec()));
        check(acc, c, &format!("range_from[{i}..]"), run(|| h[i..].to_vec()), run(|| b[i..].to_vec()));
        check(acc, c, &format!("range_to[..{i}]"), run(|| h[..i].to_vec()), run(|| b[..i].to_vec()));
        check(acc, c, &format!("range_to_inclusive[..={i}]"), run(|| h[..=i].to_vec()), run(|| b[..=i].to_vec()));
        for e in idx_set(len) {
            check(acc, c, &format!("range[{i}..{e}]"), run(|| h[i..e].to_vec()), run(|| b[i..e].to_vec()));
            check(acc, c, &format!("range_inclusive[{i}..={e}]"), run(|| h[i..=e].to_vec()), run(|| b[i..=e].to_vec()));
        }
    }
    check(acc, c, "range_full[..]", run(|| h[..].to_vec()), Ok(b.clone()));
}

fn structured_u64() -> Vec<u64> {
    let mut v: Vec<u64> = vec![0, 1, u64::MAX, i64::MAX as u64, i64::MIN as u64, 0x0102_0304_0506_0708, 0x8000_0000_0000_0001];
    for i in 0..64 {
        v.push(1u64 << i);
        v.push(!(1u64 << i));
        v.push((1u64 << i).wrapping_sub(1));
    }
    for b in 0..8 {
        v.push(0xFFu64 << (8 * b));
        v.push(0x80u64 << (8 * b));
    }
    // floats: +-0, +-inf, NaN payloads, subnormals, extremes
    for f in [0.0f64, -0.0, f64::INFINITY, f64::NEG_INFINITY, f64::NAN, f64::MIN_POSITIVE, f64::MAX, f64::MIN, f64::EPSILON, 1.5, -2.75, 5e-324, std::f64::consts::PI] {
        v.push(f.to_bits());
    }
    v.push(0x7FF0_0000_0000_0001); // signalling NaN payload
    v.push(0xFFF8_0000_0000_BEEF);
    v.sort_unstable();
    v.dedup();
    v
}

pub fn run_c15(tier: &str) -> Outcome {
    let t0 = Instant::now();
    let max_len = if crate::props::quick(tier) { 17 } else { 33 };
    let dom = domain(max_len);
    let mut acc = super::par_cases(dom.len(), |i, acc| {
        let c = &dom[i];
        crate::inflight::begin_case(|| json!({"engine": "hexgen", "property": "C15", "case": c.json(), "operation": "all", "kind": "crash-or-hang", "tags": ["C15"]}));
        check_case(acc, c);
        acc.nontrivial += 1;
        if i % 37 == 0 {
            acc.sample(json!({"bytes": ref_print(&c.bytes), "representation": c.rep}));
        }
    });
    // equality over all pairs of the domain
    let built: Vec<(usize, Option<Hex>)> = dom.iter().enumerate().map(|(i, c)| (i, c.build())).collect();
    for (i, a) in &built {
        for (j, b) in &built {
            let (Some(a), Some(b)) = (a, b) else { continue };
            let want = dom[*i].bytes == dom[*j].bytes;
            acc.evaluations += 1;
            if run(|| a == b) != Ok(want) {
                acc.fail(
                    "C15",
                    "hex:eq",
                    format!("{} ({}) == {} ({}) should be {want}", ref_print(&dom[*i].bytes), dom[*i].rep, ref_print(&dom[*j].bytes), dom[*j].rep),
                    json!({"engine": "hexgen", "property": "C15", "case": dom[*i].json(), "other": dom[*j].json(), "operation": "eq"}),
                );
            }
        }
    }
    // every byte value at every position of lengths 1..=9: print / from_str
    let mut printed = 0u64;
    for len in 1..=9usize {
        for pos in 0..len {
            for val in 0..=255u8 {
                let mut b: Vec<u8> = (0..len).map(|i| (i * 17 + 3) as u8).collect();
                b[pos] = val;
                let c = Case { bytes: b.clone(), rep: "from_slice" };
                let h = c.build().unwrap();
                check(&mut acc, &c, "print()", run(|| h.print()), Ok(ref_print(&b)));
                check(&mut acc, &c, "from_str(print())", run(|| Hex::from_str(&ref_print(&b)).ok().map(|x| (x.bytes().to_vec(), x == h))), Ok(Some((b.clone(), true))));
                let lower = ref_print(&b).to_lowercase();
                check(&mut acc, &c, "from_str(lowercase)", run(|| Hex::from_str(&lower).ok().map(|x| x.bytes().to_vec())), Ok(Some(b.clone())));
                printed += 1;
            }
        }
    }
    acc.bump("byte_value_position_cases", printed);
    // i64 / f64: bit-exact inverses of From
    for u in structured_u64() {
        let c = Case { bytes: u.to_be_bytes().to_vec(), rep: "from_slice" };
        let i = u as i64;
        check(&mut acc, &c, "to_i64(from(i64))", run(|| Hex::from(i).to_i64().ok()), Ok(Some(i)));
        check(&mut acc, &c, "bytes(from(i64))", run(|| Hex::from(i).bytes().to_vec()), Ok(i.to_be_bytes().to_vec()));
        let f = f64::from_bits(u);
        check(&mut acc, &c, "to_f64(from(f64))", run(|| Hex::from(f).to_f64().ok().map(f64::to_bits)), Ok(Some(u)));
        check(&mut acc, &c, "bytes(from(f64))", run(|| Hex::from(f).bytes().to_vec()), Ok(u.to_be_bytes().to_vec()));
        acc.bump("i64_f64_values", 1);
    }
    let rule = format!(
        "every byte string of length 0..={max_len} x 4 content patterns x every representation of the same bytes (from_slice, from_vec, from_str, Hex::Bytes with non-zero padding, Hex::Vector) x every accessor, every index in 0..=len+2 and usize::MAX(-1), every (start,end) of that set for the six range kinds, tail, byte_at, IndexMut; equality over all pairs; all 256 byte values at every position of lengths 1..=9; i64/f64 on structured bit patterns. Oracle: the same operation on the &[u8], outcome for outcome (value or panic). distinct_nontrivial = distinct (bytes, representation) cases"
    );
    super::outcome("C15", tier, "exploration", &rule, acc, true, json!({}), t0.elapsed().as_secs_f64(), vec!["byte contents are abstracted to 4 patterns per length for indexing (the code never branches on a byte value); all 256 values are enumerated for print/parse".to_string()], vec![])
}

/// The class of the known concat defect: inline left operand of l < 8 bytes whose
/// result spills to the heap, and the result is a ++ a's own padding ++ b.
fn concat_signature(a: &Hex, abytes: &[u8], bbytes: &[u8], got: &[u8]) -> String {
    if let Hex::Bytes(arr, l) = a {
        if *l < 8 && l + bbytes.len() > 8 {
            let mut padded = arr.to_vec();
            padded.extend_from_slice(bbytes);
            if got == padded.as_slice() && abytes.len() == *l {
                return "concat:inline-left-shorter-than-8-spills-and-copies-its-padding".to_string();
            }
        }
    }
    "concat:wrong-bytes".to_string()
}

/// one pair (a, b): the concat itself, then the chains that start from its result
pub fn concat_case(acc: &mut Acc, ca: &Case, cb: &Case) {
        let (Some(a), Some(b)) = (ca.build(), cb.build()) else { return };
        acc.evaluations += 1;
        acc.nontrivial += 1;
        let mut want = ca.bytes.clone();
        want.extend_from_slice(&cb.bytes);
        let replay = json!({"engine": "hexgen", "property": "C16", "operation": "concat", "a": ca.json(), "b": cb.json(), "expected": ref_print(&want)});
        crate::inflight::begin_case(|| json!({"engine": "hexgen", "property": "C16", "operation": "concat", "a": ca.json(), "b": cb.json(), "kind": "crash-or-hang", "tags": ["C16"]}));
        let (a0, b0) = (format!("{:?}", RawHex(&a)), format!("{:?}", RawHex(&b)));
        match run(|| a.concat(&b)) {
            Err(()) => acc.fail("C16", "concat:panic", format!("{} ({}) concat {} ({}) panicked", ref_print(&ca.bytes), ca.rep, ref_print(&cb.bytes), cb.rep), replay),
            Ok(r) => {
                let got = r.bytes().to_vec();
                if got != want {
                    let sig = concat_signature(&a, &ca.bytes, &cb.bytes, &got);
                    acc.fail("C16", &sig, format!("{} ({}) concat {} ({}) = {} instead of {}", ref_print(&ca.bytes), ca.rep, ref_print(&cb.bytes), cb.rep, ref_print(&got), ref_print(&want)), replay.clone());
                }
                if format!("{:?}", RawHex(&a)) != a0 || format!("{:?}", RawHex(&b)) != b0 {
                    acc.fail("C16", "concat:operand-changed", format!("concat changed an operand: {} / {}", ref_print(&ca.bytes), ref_print(&cb.bytes)), replay.clone());
                }
                // chains: the result, edited in place through IndexMut, is the left operand of the next
                // concat (what counts are the bytes it holds now); then the result is dropped and a fresh
                // value of the same length takes its place
                let rlen = r.len();
                let mut r2 = r;
                if rlen > 0 {
                    let _ = run(|| {
                        r2[0] ^= 0xFF;
                        r2[rlen - 1] = r2[rlen - 1].wrapping_add(0x31);
                    });
                }
                let base = r2.bytes().to_vec();
                for c in [b.clone(), Hex::from_slice(&[0xE1, 0xE2]), Hex::from_slice(&[0xD1; 9])] {
                    acc.evaluations += 1;
                    let mut want2 = base.clone();
                    want2.extend_from_slice(c.bytes());
                    match run(|| r2.concat(&c)) {
                        Err(()) => acc.fail("C16", "concat:panic-in-chain", format!("({} concat {}), edited in place, concat {} panicked", ref_print(&ca.bytes), ref_print(&cb.bytes), ref_print(c.bytes())), replay.clone()),
                        Ok(r3) => {
                            let got = r3.bytes().to_vec();
                            if got != want2 {
                                let sig = concat_signature(&r2, &base, c.bytes(), &got);
                                let sig = if sig.starts_with("concat:inline-left-shorter") { sig } else { "concat:wrong-result-in-chain".to_string() };
                                acc.fail("C16", &sig, format!("r = {} ({}) concat {} ({}); r edited in place to {}; r concat {} = {} instead of {}", ref_print(&ca.bytes), ca.rep, ref_print(&cb.bytes), cb.rep, ref_print(&base), ref_print(c.bytes()), ref_print(&got), ref_print(&want2)), replay.clone());
                            }
                        }
                    }
                }
                drop(r2);
                if rlen > 8 {
                    acc.evaluations += 1;
                    let fresh = Hex::from_vec(vec![0x5A; rlen]);
                    let mut want3 = vec![0x5A; rlen];
                    want3.extend_from_slice(&cb.bytes);
                    if let Ok(r4) = run(|| fresh.concat(&b)) {
                        if r4.bytes() != want3.as_slice() {
                            acc.fail("C16", "concat:wrong-result-after-drop", format!("after an earlier result of {rlen} bytes was dropped, a fresh value of {rlen} bytes 5A concat {} = {} instead of {}", ref_print(&cb.bytes), ref_print(r4.bytes()), ref_print(&want3)), replay.clone());
                        }
                    }
                }
            }
        }
}

pub fn run_c16(tier: &str) -> Outcome {
    let t0 = Instant::now();
    let max_len = if crate::props::quick(tier) { 17 } else { 33 };
    // position-distinct bytes so that a mix-up is visible
    let mut dom: Vec<Case> = vec![];
    for len in 0..=max_len {
        // position-distinct bytes, and the two uniform contents (all 00: looks like unused storage; all FF)
        let mut contents: Vec<Vec<u8>> = vec![(0..len).map(|i| (0x10 + i) as u8).collect(), vec![0u8; len], vec![0x7Fu8; len]];
        contents.dedup();
        for b in contents {
            let reps: &[&'static str] = if len <= 8 { &["from_slice", "Bytes+padding", "Vector"] } else { &["from_slice", "Vector"] };
            for r in reps {
                dom.push(Case { bytes: b.clone(), rep: r });
            }
        }
    }
    // longer operands around 32, 64, 128, 256 bytes and one of 1000 (one content, two representations)
    for len in [31usize, 32, 33, 56, 57, 63, 64, 65, 127, 128, 129, 255, 256, 257, 1000] {
        if len > max_len {
            for r in ["from_slice", "Vector"] {
                dom.push(Case { bytes: (0..len).map(|i| (0x10 + i % 0x60) as u8).collect(), rep: r });
            }
        }
    }
    let n = dom.len();
    let acc = super::par_cases(n * n, |k, acc| {
        let (ca, cb0) = (&dom[k / n], &dom[k % n]);
        // make b's bytes distinct from a's (00 stays 00: an all-zero operand is still an operand)
        let cb = Case { bytes: cb0.bytes.iter().map(|x| if *x == 0 { 0 } else { x.wrapping_add(0x80) }).collect(), rep: cb0.rep };
        concat_case(acc, ca, &cb);
        if k % 997 == 0 {
            acc.sample(json!({"a": ref_print(&ca.bytes), "a_representation": ca.rep, "b": ref_print(&cb.bytes), "b_representation": cb.rep}));
        }
    });
    let rule = format!("every pair (a,b) of byte strings of length 0..={max_len} in every representation (from_slice, Hex::Bytes with non-zero padding, Hex::Vector), three contents per length (position-distinct bytes, all 00, all 7F/FF), plus operands of 31..33, 56, 57, 63..65, 127..129, 255..257 and 1000 bytes; oracle: bytes(a.concat(b)) == a ++ b, a and b unchanged in bytes and representation; PLUS chains: the result edited in place through IndexMut (first and last byte) is concatenated with b, with 2 and with 9 other bytes (== its present bytes ++ c), then dropped, and a fresh value of the same length is concatenated with b. distinct_nontrivial = distinct (a,b) pairs");
    super::outcome("C16", tier, "exploration", &rule, acc, true, json!({}), t0.elapsed().as_secs_f64(), vec![], vec![])
}

/// bytes + representation of a Hex, for "unchanged" comparisons
struct RawHex<'a>(&'a Hex);
impl std::fmt::Debug for RawHex<'_> {
    fn fmt(&self, f: &mut std::fmt::Formatter<'_>) -> std::fmt::Result {
        match self.0 {
            Hex::Vector(v) => write!(f, "Vector({v:?})"),
            Hex::Bytes(a, l) => write!(f, "Bytes({a:?},{l})"),
        }
    }
}

fn case_from(v: &Value) -> Case {
    let bytes: Vec<u8> = serde_json::from_value(v["bytes"].clone()).unwrap_or_default();
    let rep = match v["representation"].as_str().unwrap_or("") {
        "from_vec" => "from_vec",
        "from_str" => "from_str",
        "Bytes+padding" => "Bytes+padding",
        "Vector" => "Vector",
        _ => "from_slice",
    };
    Case { bytes, rep }
}

pub fn replay(v: &Value) -> i32 {
    let mut acc = Acc::default();
    match v["operation"].as_str().unwrap_or("") {
        "concat" => {
            let (ca, cb) = (case_from(&v["a"]), case_from(&v["b"]));
            concat_case(&mut acc, &ca, &cb);
            for f in &acc.failures {
                println!("  [{}] {}", f.signature, f.summary);
            }
            if acc.fail_total > 0 {
                println!("REPRODUCED property=C16 signature={}", acc.failures[0].signature);
                1
            } else {
                println!("NOT REPRODUCED property=C16");
                0
            }
        }
        "eq" => {
            let (ca, cb) = (case_from(&v["case"]), case_from(&v["other"]));
            let (Some(a), Some(b)) = (ca.build(), cb.build()) else { return 2 };
            let want = ca.bytes == cb.bytes;
            let got = run(|| a == b);
            println!("eq -> {got:?}, expected {want}");
            i32::from(got != Ok(want))
        }
        _ => {
            let c = case_from(&v["case"]);
            check_case(&mut acc, &c);
            for f in &acc.failures {
                println!("  {}", f.summary);
            }
            if acc.fail_total > 0 {
                println!("REPRODUCED property=C15 ({} disagreements on this case)", acc.fail_total);
                1
            } else {
                println!("NOT REPRODUCED property=C15");
                0
            }
        }
    }
}
