//! The real side: applying ops to a real `Sodg<N>`, catching panics, and
//! reading observables through the public API.

use crate::menu::{dat, lab};
use crate::model::{fixed_tree, HTree, Op};
use sodg::{Label, Sodg};
use std::cell::RefCell;
use std::panic::{catch_unwind, AssertUnwindSafe};
use std::path::{Path, PathBuf};

/// `Sodg` is `!Send` only because emap holds a raw pointer to a buffer it
/// owns exclusively; moving or sharing an object that nobody mutates is sound.
pub struct G<const N: usize>(pub Sodg<N>);
unsafe impl<const N: usize> Send for G<N> {}
unsafe impl<const N: usize> Sync for G<N> {}

thread_local! {
    static LAST_PANIC: RefCell<String> = const { RefCell::new(String::new()) };
    static GUARD_DEPTH: std::cell::Cell<u32> = const { std::cell::Cell::new(0) };
}

/// Silence the default hook and remember the message of the last panic.
pub fn install_panic_hook() {
    std::panic::set_hook(Box::new(|info| {
        let msg = if let Some(s) = info.payload().downcast_ref::<&str>() {
            (*s).to_string()
        } else if let Some(s) = info.payload().downcast_ref::<String>() {
            s.clone()
        } else {
            "<non-string panic>".to_string()
        };
        let loc = info.location().map(|l| format!(" at {}:{}", l.file(), l.line())).unwrap_or_default();
        if GUARD_DEPTH.with(std::cell::Cell::get) == 0 {
            // not inside a guarded call of the subject: the harness itself is failing
            eprintln!("ENGINE PANIC (outside any guarded call): {msg}{loc}");
        }
        LAST_PANIC.with(|p| *p.borrow_mut() = format!("{msg}{loc}"));
    }));
}

/// Run `f`, turning a panic into Err(message).
pub fn guarded<T>(f: impl FnOnce() -> T) -> Result<T, String> {
    GUARD_DEPTH.with(|d| d.set(d.get() + 1));
    let r = catch_unwind(AssertUnwindSafe(f));
    GUARD_DEPTH.with(|d| d.set(d.get().saturating_sub(1)));
    match r {
        Ok(t) => Ok(t),
        Err(_) => Err(LAST_PANIC.with(|p| p.borrow().clone())),
    }
}

#[derive(Clone, Debug, PartialEq, Eq)]
pub enum Ret {
    Unit,
    Data(Option<Vec<u8>>),
    Id(usize),
    Merge(Result<(), String>),
    Script(Result<usize, String>),
}

/// Scratch directory for images (tmpfs if available), unique per process.
pub fn scratch_dir() -> PathBuf {
    static DIR: std::sync::OnceLock<PathBuf> = std::sync::OnceLock::new();
    DIR.get_or_init(make_scratch_dir).clone()
}

fn make_scratch_dir() -> PathBuf {
    let base = if Path::new("/dev/shm").is_dir() {
        PathBuf::from("/dev/shm")
    } else {
        let p = PathBuf::from(env!("CARGO_MANIFEST_DIR")).join("../.work");
        p
    };
    let d = base.join(format!("sodg-verif-{}", std::process::id()));
    std::fs::create_dir_all(&d).expect("scratch dir");
    d
}

pub fn remove_scratch_dir() {
    let _ = std::fs::remove_dir_all(scratch_dir());
}

thread_local! {
    static THREAD_FILE: RefCell<Option<PathBuf>> = const { RefCell::new(None) };
}

/// A scratch file path private to the calling thread (own directory per
/// thread: creating files in one shared directory serialises on its lock).
pub fn thread_file(tag: &str) -> PathBuf {
    let base = THREAD_FILE.with(|t| {
        let mut t = t.borrow_mut();
        if t.is_none() {
            let d = scratch_dir().join(format!("t{:?}", std::thread::current().id()).replace(['(', ')'], ""));
            std::fs::create_dir_all(&d).expect("thread scratch dir");
            *t = Some(d);
        }
        t.clone().unwrap()
    });
    base.join(tag)
}

/// Build the real graph of a right tree: node i gets id `ids[i]`.
pub fn build_tree<const N: usize>(h: &HTree, ids: &[usize], cap: usize) -> Sodg<N> {
    let mut g: Sodg<N> = Sodg::empty(cap);
    build_tree_into(&mut g, h, ids);
    g
}

/// The same into an existing graph (which may have lived before: recycled slots).
pub fn build_tree_into<const N: usize>(g: &mut Sodg<N>, h: &HTree, ids: &[usize]) {
    for i in 0..h.size() {
        g.add(ids[i]);
    }
    for i in 0..h.size() {
        for (a, c) in &h.kids[i] {
            g.bind(ids[i], ids[*c], lab(*a));
        }
    }
    for i in 0..h.size() {
        if let Some(d) = h.data[i] {
            g.put(ids[i], &dat(d));
        }
    }
}

/// The real right graph of the Merge transition inside HX: ids 1.., cap size+2.
pub fn fixed_real<const N: usize>(k: u8) -> (Sodg<N>, usize) {
    let h = fixed_tree(k);
    let ids: Vec<usize> = (1..=h.size()).collect();
    (build_tree::<N>(&h, &ids, h.size() + 2), 1)
}

/// save + load through a scratch file
pub fn reload<const N: usize>(g: &Sodg<N>) -> Result<Sodg<N>, String> {
    let f = thread_file("reload");
    g.save(&f).map_err(|e| format!("save() failed: {e:#}"))?;
    Sodg::load(&f).map_err(|e| format!("load() failed: {e:#}"))
}

/// Apply one op to the real graph. Err = the call panicked (message).
pub fn apply_real<const N: usize>(g: &mut Sodg<N>, op: &Op) -> Result<Ret, String> {
    guarded(|| match op {
        Op::Add(v) => {
            g.add(*v);
            Ret::Unit
        }
        Op::Bind(a, b, l) => {
            g.bind(*a, *b, lab(*l));
            Ret::Unit
        }
        Op::Put(v, d) => {
            g.put(*v, &dat(*d));
            Ret::Unit
        }
        Op::Data(v) => Ret::Data(g.data(*v).map(|h| h.to_vec())),
        Op::NextId => Ret::Id(g.next_id()),
        Op::AddNext => {
            let id = g.next_id();
            g.add(id);
            Ret::Id(id)
        }
        Op::CloneSwap => {
            *g = g.clone();
            Ret::Unit
        }
        Op::CloneFromSwap => {
            let cap = g.verif_snapshot().vertices.len();
            let mut t: Sodg<N> = Sodg::empty(cap);
            t.add(0);
            if cap >= 2 {
                t.add(1);
                t.bind(0, 1, lab(0));
                t.put(1, &dat(0));
                let _ = t.next_id();
            } else {
                t.put(0, &dat(0));
            }
            t.clone_from(g);
            *g = t;
            Ret::Unit
        }
        Op::ReloadSwap => match reload(g) {
            Ok(l) => {
                *g = l;
                Ret::Unit
            }
            Err(e) => panic!("{e}"),
        },
        Op::Merge(k, left) => {
            let (h, right) = fixed_real::<N>(*k);
            Ret::Merge(g.merge(&h, *left, right).map_err(|e| format!("{e:#}")))
        }
        Op::Script(k, a, b) => Ret::Script(sodg::Script::from_str(&crate::model::script_text(*k, *a, *b)).deploy_to(g).map_err(|e| format!("{e:#}"))),
        Op::MergeFail(k, left) => {
            let (mut h, right) = fixed_real::<N>(*k);
            let stray = fixed_tree(*k).size() + 1;
            h.add(stray);
            h.put(stray, &dat(3));
            Ret::Merge(g.merge(&h, *left, right).map_err(|e| format!("{e:#}")))
        }
    })
}

/// Replay a history from `Sodg::empty(cap)`; Err if some call panics.
pub fn replay<const N: usize>(cap: usize, hist: &[Op]) -> Result<Sodg<N>, String> {
    let mut g: Sodg<N> = Sodg::empty(cap);
    for (i, op) in hist.iter().enumerate() {
        apply_real(&mut g, op).map_err(|e| format!("step {i} {}: panic: {e}", op.text()))?;
    }
    Ok(g)
}

pub fn kids_of<const N: usize>(g: &Sodg<N>, v: usize) -> Vec<(Label, usize)> {
    g.kids(v).map(|(a, t)| (*a, *t)).collect()
}

/// A copy of `g` that is verified to be exact: its complete snapshot equals the
/// original's. None if clone() panics or loses something - then the caller
/// must not continue on the copy (C10 judges clone(); nobody else depends on it).
pub fn exact_copy<const N: usize>(g: &Sodg<N>) -> Option<Sodg<N>> {
    let c = guarded(|| g.clone()).ok()?;
    let (a, b) = (guarded(|| c.verif_snapshot()).ok()?, guarded(|| g.verif_snapshot()).ok()?);
    if a == b {
        Some(c)
    } else {
        None
    }
}

/// keys() as a sorted list: no property fixes the order in which keys() lists the present ids.
pub fn keys_sorted<const N: usize>(g: &Sodg<N>) -> Vec<usize> {
    let mut k = g.keys();
    k.sort_unstable();
    k
}
