//! C07: no memory errors, and limit overruns stop with a panic. The same
//! explorer is built twice: normally and under AddressSanitizer (the verdict
//! on memory errors comes from the sanitized build; the supervisor in ./check
//! turns a sanitizer abort into a VIOLATION with the case in flight).
//!
//! The alphabet violates limits and preconditions on purpose. After a caught
//! panic the (possibly half-updated) object is kept and explored further.

use crate::menu::{dat, lab};
use crate::model::{fixed_tree, Model, Op};
use crate::real::{guarded, thread_file};
use crate::report::{Failure, Outcome};
use rustc_hash::FxHashSet;
use serde::{Deserialize, Serialize};
use serde_json::{json, Value};
use sodg::Sodg;
use std::collections::BTreeMap;
use std::time::{Duration, Instant};

#[derive(Clone, Copy, Debug, PartialEq, Eq, Hash, Serialize, Deserialize)]
pub enum VOp {
    Add(usize),
    Bind(usize, usize, u8),
    Put(usize, u8),
    Data(usize),
    Kid(usize, u8),
    Kids(usize),
    VPrint(usize),
    Inspect(usize),
    Slice(usize),
    NextId,
    /// merge a clone of the graph itself into it
    MergeSelf(usize, usize),
    /// merge the fixed right tree k at `left`
    MergeTree(u8, usize),
    /// merge a right graph that is not a tree (shared child + cycle) at `left`
    MergeNonTree(usize),
    /// merge a right graph that reaches one vertex along two paths (forces join()) at `left`
    MergeJoin(usize),
    Reload,
    CloneSwap,
    Exports,
}

fn text(op: &VOp) -> String {
    format!("{op:?}")
}

#[derive(Clone, Debug)]
pub struct Cfg {
    pub n: usize,
    pub cap: usize,
    pub depth: usize,
    pub wall: Duration,
    pub labels: Vec<u8>,
}

fn id_menu(cap: usize) -> Vec<usize> {
    let mut v = vec![0, 1, 2, cap.saturating_sub(1), cap, cap + 1, usize::MAX];
    v.sort_unstable();
    v.dedup();
    v
}

fn alphabet(c: &Cfg) -> Vec<VOp> {
    let ids = id_menu(c.cap);
    let mut ops = vec![];
    for v in &ids {
        ops.push(VOp::Add(*v));
    }
    for a in &ids {
        for b in &ids {
            for l in &c.labels {
                ops.push(VOp::Bind(*a, *b, *l));
            }
        }
    }
    for v in &ids {
        ops.push(VOp::Put(*v, 0)); // 8 bytes, inline
        ops.push(VOp::Put(*v, 1)); // 9 bytes, heap
        ops.push(VOp::Put(*v, 6)); // 17 bytes, heap: a longer datum over a shorter heap datum
        ops.push(VOp::Data(*v));
        ops.push(VOp::Kid(*v, c.labels[0]));
        ops.push(VOp::Kids(*v));
        ops.push(VOp::VPrint(*v));
        ops.push(VOp::Inspect(*v));
        ops.push(VOp::Slice(*v));
    }
    ops.push(VOp::NextId);
    for l in [0, 1, c.cap] {
        ops.push(VOp::MergeSelf(l, 0));
        ops.push(VOp::MergeTree(2, l));
        ops.push(VOp::MergeNonTree(l));
    }
    ops.push(VOp::MergeJoin(0));
    ops.push(VOp::MergeSelf(0, 1));
    ops.push(VOp::Reload);
    ops.push(VOp::CloneSwap);
    ops.push(VOp::Exports);
    ops
}

/// What the statement says about a call on a state whose history was entirely within the limits.
#[derive(Debug, PartialEq, Eq, Clone, Copy)]
pub enum Demand {
    /// within the limits and preconditions: must complete
    MustComplete,
    /// one of the three overruns the statement names: must stop (panic, or Err where the call returns a Result)
    MustStop,
    /// a broken precondition the statement does not list: only "no memory error"
    Nothing,
}

fn non_tree<const N: usize>() -> (Sodg<N>, usize) {
    let mut h: Sodg<N> = Sodg::empty(6);
    for v in 0..4 {
        h.add(v);
    }
    h.bind(0, 1, lab(0));
    if N >= 2 {
        h.bind(0, 2, lab(1));
    }
    h.bind(1, 3, lab(0));
    h.bind(2, 3, lab(0)); // shared child
    h.bind(3, 0, lab(0)); // and a cycle
    h.put(3, &dat(1));
    (h, 0)
}

/// the right graph of the crate's own test merges_a_loop, with heap data on the shared vertex
fn join_right<const N: usize>() -> (Sodg<N>, usize) {
    let mut h: Sodg<N> = Sodg::empty(8);
    h.add(0);
    h.add(4);
    h.bind(0, 4, lab(2));
    h.add(3);
    if N >= 2 {
        h.bind(0, 3, lab(0));
    }
    h.bind(4, 3, lab(1));
    h.add(5);
    if N >= 2 {
        h.bind(3, 5, lab(2));
    }
    h.put(3, &dat(6));
    h.put(5, &dat(0));
    (h, 0)
}

pub fn demand(m: &Model, op: &VOp) -> Demand {
    let cap = m.cap;
    let present = |v: &usize| m.present.contains_key(v);
    match op {
        VOp::Add(v) => {
            if *v >= cap {
                Demand::MustStop
            } else {
                Demand::MustComplete
            }
        }
        VOp::Bind(a, b, l) => {
            if *a >= cap || *b >= cap {
                return Demand::MustStop;
            }
            if m.bind_enabled(*a, *b, *l) {
                return Demand::MustComplete;
            }
            if a != b && present(a) && present(b) {
                let va = &m.present[a];
                if !va.edges.iter().any(|(x, _)| x == l) && va.edges.len() >= m.n {
                    return Demand::MustStop; // the (N+1)-th label
                }
                let (ga, gb) = (va.group, m.present[b].group);
                let full = |g: Option<usize>| g.is_some_and(|g| m.group_members(g).len() >= crate::model::MAX_GROUP);
                if (ga.is_some() != gb.is_some()) && (full(ga) || full(gb)) {
                    return Demand::MustStop; // the 17th member
                }
            }
            Demand::Nothing
        }
        VOp::Put(v, _) | VOp::Data(v) | VOp::Kid(v, _) | VOp::Kids(v) | VOp::VPrint(v) | VOp::Inspect(v) => {
            if *v >= cap {
                Demand::MustStop
            } else if present(v) {
                Demand::MustComplete
            } else {
                Demand::Nothing
            }
        }
        VOp::Slice(v) => {
            if *v >= cap {
                Demand::MustStop
            } else if m.reachable_present(*v).is_some_and(|r| r.len() <= 14) {
                Demand::MustComplete
            } else {
                Demand::Nothing
            }
        }
        VOp::NextId => {
            if m.has_free_id(0) && m.pos < cap && (m.pos..cap).any(|v| !present(&v)) {
                Demand::MustComplete
            } else {
                Demand::Nothing
            }
        }
        VOp::MergeTree(k, left) => {
            if m.merge_enabled(&fixed_tree(*k), *left, m.pos) {
                Demand::MustComplete
            } else {
                Demand::Nothing
            }
        }
        VOp::MergeSelf(..) | VOp::MergeNonTree(_) | VOp::MergeJoin(_) => Demand::Nothing,
        VOp::Reload | VOp::CloneSwap | VOp::Exports => Demand::MustComplete,
    }
}

/// Outcome of a real call: Ok(stopped_with_err) or Err(panic message)
fn apply<const N: usize>(g: &mut Sodg<N>, op: &VOp) -> Result<bool, String> {
    guarded(|| match op {
        VOp::Add(v) => {
            g.add(*v);
            false
        }
        VOp::Bind(a, b, l) => {
            g.bind(*a, *b, lab(*l));
            false
        }
        VOp::Put(v, d) => {
            g.put(*v, &dat(*d));
            false
        }
        VOp::Data(v) => {
            let _ = g.data(*v);
            false
        }
        VOp::Kid(v, l) => {
            let _ = g.kid(*v, lab(*l));
            false
        }
        VOp::Kids(v) => {
            let _ = g.kids(*v).count();
            false
        }
        VOp::VPrint(v) => g.v_print(*v).is_err(),
        VOp::Inspect(v) => g.inspect(*v).is_err(),
        VOp::Slice(v) => match g.slice(*v) {
            Ok(s) => {
                let _ = s.keys();
                false
            }
            Err(_) => true,
        },
        VOp::NextId => {
            let _ = g.next_id();
            false
        }
        VOp::MergeSelf(l, r) => {
            let c = g.clone();
            g.merge(&c, *l, *r).is_err()
        }
        VOp::MergeTree(k, left) => {
            let (h, right) = crate::real::fixed_real::<N>(*k);
            g.merge(&h, *left, right).is_err()
        }
        VOp::MergeNonTree(left) => {
            let (h, right) = non_tree::<N>();
            g.merge(&h, *left, right).is_err()
        }
        VOp::MergeJoin(left) => {
            let (h, right) = join_right::<N>();
            g.merge(&h, *left, right).is_err()
        }
        VOp::Reload => {
            let f = thread_file("c07");
            match g.save(&f) {
                Err(_) => true,
                Ok(_) => match Sodg::<N>::load(&f) {
                    Ok(l) => {
                        *g = l;
                        false
                    }
                    Err(_) => true,
                },
            }
        }
        VOp::CloneSwap => {
            *g = g.clone();
            false
        }
        VOp::Exports => {
            if std::env::var_os("VX_SELFTEST_OOB").is_some() && g.keys().len() == 2 {
                // self-test of the supervisor: a deliberate heap overflow in the harness itself
                let v: Vec<u8> = vec![1, 2, 3];
                let x = unsafe { std::ptr::read_volatile(v.as_ptr().add(v.len() + 16)) };
                std::hint::black_box(x);
            }
            let _ = g.to_xml();
            let _ = g.to_dot();
            let _ = format!("{g:?}");
            let _ = g.keys();
            let _ = g.len();
            false
        }
    })
}

/// the model op of a VOp, if it is one the model can follow
fn model_op(op: &VOp) -> Option<Op> {
    match op {
        VOp::Add(v) => Some(Op::Add(*v)),
        VOp::Bind(a, b, l) => Some(Op::Bind(*a, *b, *l)),
        VOp::Put(v, d) => Some(Op::Put(*v, *d)),
        VOp::Data(v) => Some(Op::Data(*v)),
        VOp::CloneSwap => Some(Op::CloneSwap),
        VOp::Reload => Some(Op::ReloadSwap),
        _ => None,
    }
}

/// One call: returns (finding, clean model afterwards)
fn call<const N: usize>(g: &mut Sodg<N>, clean: Option<Model>, op: &VOp, counters: &mut BTreeMap<String, u64>) -> (Option<(String, String)>, Option<Model>) {
    let d = clean.as_ref().map(|m| demand(m, op));
    let r = apply(g, op);
    *counters.entry("calls".into()).or_insert(0) += 1;
    if r.is_err() {
        *counters.entry("calls_ending_in_a_caught_panic".into()).or_insert(0) += 1;
    }
    let Some(mut m) = clean else { return (None, None) };
    match d.unwrap() {
        Demand::MustComplete => {
            *counters.entry("in_limit_calls".into()).or_insert(0) += 1;
            if let Err(e) = &r {
                return (Some(("in-limit-call-panicked".to_string(), format!("{} is within the limits and preconditions but panicked: {e}", text(op)))), None);
            }
            // keep the model in step where it can follow
            match op {
                VOp::NextId => {
                    // adopt whatever id a second look reveals: position from the hook
                    m.pos = g.verif_snapshot().next_v;
                }
                VOp::MergeTree(k, left) => {
                    let mut errs = vec![];
                    let gr: &Sodg<N> = g;
                    let _ = m.apply_merge(&fixed_tree(*k), *left, &|gl, a| guarded(|| gr.kid(gl, lab(a))).ok().flatten(), &mut errs);
                    if !errs.is_empty() {
                        return (None, None);
                    }
                }
                _ => {
                    if let Some(mo) = model_op(op) {
                        m.apply(&mo);
                    }
                }
            }
            // if the graph is not what the model says, other properties judge that; stop demanding
            if guarded(|| crate::real::keys_sorted(g)).ok() != Some(m.keys()) {
                return (None, None);
            }
            (None, Some(m))
        }
        Demand::MustStop => {
            *counters.entry("overruns_that_must_stop".into()).or_insert(0) += 1;
            match r {
                Err(_) | Ok(true) => (None, None),
                Ok(false) => (Some(("overrun-did-not-stop".to_string(), format!("{} exceeds a limit (id at or above the capacity {}, more than {} labels, or more than 16 members) but returned normally instead of stopping with a panic", text(op), m.cap, m.n))), None),
            }
        }
        Demand::Nothing => (None, None),
    }
}

fn key_of<const N: usize>(g: &Sodg<N>, clean: bool) -> Option<Box<[u8]>> {
    let s = guarded(|| g.verif_snapshot()).ok()?;
    let mut out = Vec::with_capacity(128);
    crate::hx::encode_snapshot(&s, &mut out);
    out.push(u8::from(clean));
    Some(out.into_boxed_slice())
}

fn case_json(c: &Cfg, hist: &[VOp]) -> Value {
    json!({"engine": "c07", "property": "C07", "n": c.n, "cap": c.cap, "history": hist, "kind": "crash-or-hang", "tags": ["C07"]})
}

fn journal(c: &Cfg, hist: &[VOp]) {
    if std::env::var_os("VX_C07_JOURNAL_DIR").is_some() {
        static DIR: std::sync::OnceLock<String> = std::sync::OnceLock::new();
        let d = DIR.get_or_init(|| std::env::var("VX_C07_JOURNAL_DIR").unwrap_or_default());
        let p = format!("{d}/{:?}.json", std::thread::current().id()).replace(['(', ')'], "");
        let _ = std::fs::write(p, serde_json::to_string(&case_json(c, hist)).unwrap_or_default());
    }
}

#[derive(Default)]
pub struct RunOut {
    pub states: u64,
    pub calls: u64,
    pub counters: BTreeMap<String, u64>,
    pub failures: Vec<Failure>,
    pub fail_total: u64,
    pub depth_completed: usize,
    pub cap_hit: Option<String>,
    pub samples: Vec<String>,
}

fn replay_hist<const N: usize>(c: &Cfg, hist: &[VOp], counters: &mut BTreeMap<String, u64>) -> (Sodg<N>, Option<Model>, Option<(String, String)>) {
    let mut g: Sodg<N> = Sodg::empty(c.cap);
    let mut clean = Some(Model::new(c.cap, N, false));
    let mut finding = None;
    for op in hist {
        let (f, cl) = call(&mut g, clean, op, counters);
        clean = cl;
        if f.is_some() {
            finding = f;
        }
    }
    (g, clean, finding)
}

pub fn explore<const N: usize>(c: &Cfg, seeds: &[Vec<VOp>]) -> RunOut {
    let t0 = Instant::now();
    let ops = alphabet(c);
    let mut out = RunOut::default();
    let mut seen: FxHashSet<Box<[u8]>> = FxHashSet::default();
    let mut frontier: Vec<Vec<VOp>> = vec![vec![]];
    frontier.extend(seeds.iter().cloned());
    out.states = frontier.len() as u64;
    for depth in 0..c.depth {
        if frontier.is_empty() {
            break;
        }
        let threads = crate::inflight::worker_threads();
        let chunk = frontier.len().div_ceil(threads * 8).max(1);
        let nchunks = frontier.len().div_ceil(chunk);
        let next = std::sync::atomic::AtomicUsize::new(0);
        let stop = std::sync::atomic::AtomicBool::new(false);
        type ChunkOut = (Vec<(Box<[u8]>, Vec<VOp>)>, BTreeMap<String, u64>, Vec<(Vec<VOp>, String, String)>);
        let outs: Vec<std::sync::Mutex<Option<ChunkOut>>> = (0..nchunks).map(|_| std::sync::Mutex::new(None)).collect();
        let (frontier_ref, seen_ref, ops_ref) = (&frontier, &seen, &ops);
        std::thread::scope(|s| {
            for _ in 0..threads.min(nchunks) {
                s.spawn(|| {
                    crate::real::install_panic_hook();
                    loop {
                        let ci = next.fetch_add(1, std::sync::atomic::Ordering::Relaxed);
                        if ci >= nchunks {
                            break;
                        }
                        let mut cands = vec![];
                        let mut counters = BTreeMap::new();
                        let mut findings = vec![];
                        for (hi, hist) in frontier_ref[ci * chunk..((ci + 1) * chunk).min(frontier_ref.len())].iter().enumerate() {
                            if stop.load(std::sync::atomic::Ordering::Relaxed) || t0.elapsed() > c.wall {
                                stop.store(true, std::sync::atomic::Ordering::Relaxed);
                                break;
                            }
                            crate::inflight::begin_case(|| case_json(c, hist));
                            journal(c, hist);
                            let mut scratch = BTreeMap::new();
                            let (g0, clean0, _) = replay_hist::<N>(c, hist, &mut scratch);
                            // part of the states are expanded right after calls on unrelated objects that fail
                            // half-way (or complete): what they leave behind in the thread must not matter. The
                            // state is built BEFORE them (its own history could clean up what they leave)
                            if crate::dirty::maybe(ci * chunk + hi, 16) {
                                *counters.entry("states_expanded_right_after_calls_on_unrelated_objects".into()).or_insert(0) += 1;
                            }
                            for op in ops_ref {
                                // (the calls on unrelated objects once more before every call of such a state:
                                // the call before may have cleaned up what they left)
                                crate::dirty::again();
                                // a state whose history stayed within the limits is continued on a verified-exact
                                // copy (or rebuilt from scratch), so that a defect of clone() is not blamed on the
                                // call made next; damaged objects are simply cloned (the sanitizer watches)
                                let g1 = if clean0.is_some() {
                                    match crate::real::exact_copy(&g0) {
                                        Some(g) => Ok(g),
                                        None => Ok(replay_hist::<N>(c, hist, &mut scratch).0),
                                    }
                                } else {
                                    guarded(|| g0.clone())
                                };
                                let Ok(mut g1) = g1 else { continue };
                                let (f, clean1) = call(&mut g1, clean0.clone(), op, &mut counters);
                                let mut h = hist.clone();
                                h.push(*op);
                                if let Some((kind, detail)) = f {
                                    findings.push((h.clone(), kind, detail));
                                }
                                if let Some(k) = key_of(&g1, clean1.is_some()) {
                                    if !seen_ref.contains(&k) {
                                        cands.push((k, h));
                                    }
                                }
                            }
                        }
                        *outs[ci].lock().unwrap() = Some((cands, counters, findings));
                    }
                    crate::inflight::idle();
                });
            }
        });
        let mut nextf = vec![];
        for o in outs {
            let Some((cands, counters, findings)) = o.into_inner().unwrap() else { continue };
            for (k, v) in counters {
                *out.counters.entry(k).or_insert(0) += v;
            }
            for (h, kind, detail) in findings {
                out.fail_total += 1;
                if !out.failures.iter().any(|f| f.signature == format!("c07:{kind}")) {
                    out.failures.push(Failure { prop: "C07".into(), signature: format!("c07:{kind}"), summary: format!("[{kind}] Sodg<{}> capacity {}: after {:?}: {detail}", c.n, c.cap, &h[..h.len() - 1]), replay: json!({"engine": "c07", "property": "C07", "n": c.n, "cap": c.cap, "history": h, "kind": kind}) });
                }
            }
            for (k, h) in cands {
                if seen.insert(k) {
                    nextf.push(h);
                }
            }
        }
        if stop.load(std::sync::atomic::Ordering::Relaxed) {
            out.cap_hit = Some(format!("wall-clock cap {:?} reached while level {depth} was being expanded", c.wall));
            break;
        }
        out.depth_completed = depth + 1;
        out.states += nextf.len() as u64;
        if let Some(h) = nextf.get(nextf.len() / 2) {
            out.samples.push(format!("{h:?}"));
        }
        frontier = nextf;
    }
    out.calls = out.counters.get("calls").copied().unwrap_or(0);
    out
}

/// Directed histories for the overruns BFS cannot reach, the victim in every slot.
pub fn overflow_histories() -> Vec<(String, usize, usize, Vec<VOp>)> {
    let mut out = vec![];
    let tail = |ops: &mut Vec<VOp>| ops.extend([VOp::Exports, VOp::CloneSwap, VOp::Reload, VOp::Data(0), VOp::Data(1), VOp::NextId, VOp::Exports]);
    // 17th member through each bind arm, the group in each of the slots 2..=15
    for slot in 2..=15usize {
        for arm in 0..2 {
            let mut ops = vec![];
            let mut next = 0usize;
            for _ in 2..slot {
                ops.extend([VOp::Add(next), VOp::Add(next + 1), VOp::Bind(next, next + 1, 0)]);
                next += 2;
            }
            let first = next;
            ops.extend([VOp::Add(first), VOp::Add(first + 1), VOp::Bind(first, first + 1, 0)]);
            for i in 2..17 {
                ops.push(VOp::Add(first + i));
                if arm == 0 {
                    ops.push(VOp::Bind(first + i - 1, first + i, 0));
                } else {
                    ops.push(VOp::Bind(first + i, first + i - 1, 0));
                }
            }
            ops.push(VOp::Put(first, 0));
            tail(&mut ops);
            ops.push(VOp::Data(first));
            ops.push(VOp::Exports);
            out.push((format!("17th member through bind arm {arm}, group in slot {slot}"), 2, first + 18, ops));
        }
    }
    // the (N+1)-th label, the vertex in every id up to cap-1 (N = 1, 2)
    for n in [1usize, 2] {
        let cap = 6;
        for v in 0..cap {
            let t = (v + 1) % cap;
            let mut ops = vec![VOp::Add(v), VOp::Add(t)];
            for l in 0..=n {
                ops.push(VOp::Bind(v, t, l as u8));
            }
            tail(&mut ops);
            out.push((format!("label no. {} on vertex {v} of Sodg<{n}>", n + 1), n, cap, ops));
        }
    }
    // the 15th..40th group: nothing is demanded but memory safety. High ids: if a member list is
    // ever written past its end, the vertex ids that land in its bookkeeping send the next
    // accesses far outside the allocation, where the sanitizer sees them.
    for base in [0usize, 500] {
        let mut ops = vec![];
        for i in 0..40usize {
            let (x, y) = (base + 2 * i, base + 2 * i + 1);
            ops.extend([VOp::Add(x), VOp::Add(y), VOp::Bind(x, y, 0), VOp::Put(x, 0)]);
        }
        ops.push(VOp::Exports);
        for i in 0..40usize {
            ops.push(VOp::Data(base + 2 * i));
        }
        tail(&mut ops);
        // and a second round on the same (possibly damaged) object
        for i in 0..20usize {
            let (x, y) = (base + 2 * i, base + 2 * i + 1);
            ops.extend([VOp::Add(x), VOp::Add(y), VOp::Bind(y, x, 0), VOp::Put(y, 1), VOp::Data(y)]);
        }
        tail(&mut ops);
        out.push((format!("40 groups at once, ids from {base}"), 2, base + 82, ops));
    }
    // merges that have to join() two vertices (the right graph reaches one vertex along two
    // paths, one of which the left graph already has), with heap and inline data on every vertex
    for heap_on in 0..6usize {
        for variant in 0..2 {
            // left: 0 -l0-> 1 -l1-> 2 ; right is `JoinRight`: 0 -l2-> 4, 0 -l0-> 3, 4 -l1-> 3, 3 -l2-> 5
            let mut ops = vec![VOp::Add(0), VOp::Add(1), VOp::Bind(0, 1, 0), VOp::Add(2), VOp::Bind(1, 2, 1)];
            for v in 0..3usize {
                ops.push(VOp::Put(v, if v == heap_on % 3 || heap_on >= 3 { 1 } else { 0 }));
            }
            if variant == 1 {
                ops.extend([VOp::Data(1), VOp::Put(1, 1)]);
            }
            ops.push(VOp::MergeJoin(0));
            ops.extend([VOp::Exports, VOp::Data(2), VOp::Data(1), VOp::Data(0), VOp::CloneSwap, VOp::Reload, VOp::NextId, VOp::Exports, VOp::MergeJoin(0), VOp::Exports]);
            out.push((format!("merge with join(), heap data placement {heap_on}, variant {variant}"), 3, 12, ops));
        }
    }
    // every order of putting an empty, an inline, a short heap and a long heap datum on one vertex
    // (ungrouped and grouped), reading in between: a buffer that is reused must have been resized
    {
        let sizes = [2u8, 0, 1, 6];
        let mut perms: Vec<Vec<u8>> = vec![];
        for a in 0..4 {
            for b in 0..4 {
                for c in 0..4 {
                    for d in 0..4 {
                        let p = vec![sizes[a], sizes[b], sizes[c], sizes[d]];
                        let mut q = p.clone();
                        q.sort_unstable();
                        q.dedup();
                        if q.len() == 4 {
                            perms.push(p);
                        }
                    }
                }
            }
        }
        for (i, p) in perms.iter().enumerate() {
            let mut ops = vec![VOp::Add(0), VOp::Add(1), VOp::Add(2)];
            if i % 2 == 1 {
                ops.push(VOp::Bind(0, 1, 0));
            }
            for (k, d) in p.iter().enumerate() {
                ops.push(VOp::Put(0, *d));
                if k % 2 == 1 {
                    ops.push(VOp::Data(0));
                }
            }
            ops.extend([VOp::Put(2, 1), VOp::Put(2, 6), VOp::Put(2, 1), VOp::Data(2), VOp::MergeTree(1, 2), VOp::MergeTree(1, 2)]);
            tail(&mut ops);
            out.push((format!("data sizes {p:?} put on one vertex in turn"), 2, 8, ops));
        }
    }
    // entirely within the limits: a copy, a reload, a slice or an export taken in every short window
    // of a group's life (between put and bind, between bind and put, between the put and the first
    // read, between two reads, right after the collection, after the re-add); every call must complete
    for swap in [VOp::CloneSwap, VOp::Reload, VOp::Slice(0), VOp::Exports] {
        for put_first in [false, true] {
            for d in [0u8, 1] {
                for window in 0..5usize {
                    let w = |k: usize, ops: &mut Vec<VOp>| {
                        if k == window {
                            ops.push(swap);
                        }
                    };
                    let mut ops = vec![VOp::Add(0), VOp::Add(1), VOp::Add(2)];
                    if put_first {
                        ops.extend([VOp::Put(1, d), VOp::Put(2, 0)]);
                    }
                    w(0, &mut ops);
                    ops.extend([VOp::Bind(0, 1, 0), VOp::Bind(0, 2, 1)]);
                    w(1, &mut ops);
                    if !put_first {
                        ops.extend([VOp::Put(1, d), VOp::Put(2, 0)]);
                    }
                    w(2, &mut ops);
                    ops.extend([VOp::Data(1), VOp::Kids(0)]);
                    w(3, &mut ops);
                    ops.extend([VOp::Data(2), VOp::Exports]);
                    w(4, &mut ops);
                    // the same ids again, the other bind arm
                    ops.extend([VOp::Add(1), VOp::Add(0), VOp::Bind(1, 0, 0), VOp::Put(0, d), swap, VOp::Put(0, 1 - d), VOp::Data(0), VOp::NextId, VOp::Exports]);
                    out.push((format!("within the limits: {swap:?} in window {window} of a group's life (put first: {put_first}, datum {d})"), 2, 4, ops));
                }
            }
        }
    }
    // ids at and above the capacity in every position
    for cap in [1usize, 3] {
        for id in [cap, cap + 1, usize::MAX] {
            let mut ops = vec![VOp::Add(0)];
            ops.extend([VOp::Add(id), VOp::Bind(0, id, 0), VOp::Bind(id, 0, 0), VOp::Put(id, 0), VOp::Data(id), VOp::Kid(id, 0), VOp::Kids(id), VOp::VPrint(id), VOp::Inspect(id), VOp::Slice(id), VOp::MergeTree(0, id), VOp::MergeSelf(id, 0), VOp::MergeSelf(0, id)]);
            tail(&mut ops);
            out.push((format!("id {id} with capacity {cap}"), 2, cap, ops));
        }
    }
    out
}

fn run_directed(c_out: &mut RunOut) {
    for (hi, (what, n, cap, ops)) in overflow_histories().into_iter().enumerate() {
        let c = Cfg { n, cap, depth: 0, wall: Duration::from_secs(60), labels: vec![0] };
        crate::dirty::maybe(hi, 4);
        // each op is judged on its own clean prefix: a dirty object is only watched by the sanitizer
        crate::inflight::begin_case(|| case_json(&c, &ops));
        journal(&c, &ops);
        let mut counters = BTreeMap::new();
        let finding = crate::with_n!(n, N, {
            let mut g: Sodg<N> = Sodg::empty(cap);
            let mut clean = Some(Model::new(cap, N, false));
            let mut finding = None;
            for (i, op) in ops.iter().enumerate() {
                let (f, cl) = call(&mut g, clean, op, &mut counters);
                clean = cl;
                if let Some((kind, detail)) = f {
                    finding = Some((i, kind, detail));
                    break;
                }
            }
            finding
        });
        for (k, v) in counters {
            *c_out.counters.entry(k).or_insert(0) += v;
        }
        *c_out.counters.entry("directed_overflow_histories".into()).or_insert(0) += 1;
        if let Some((i, kind, detail)) = finding {
            c_out.fail_total += 1;
            if !c_out.failures.iter().any(|f| f.signature == format!("c07:{kind}")) {
                c_out.failures.push(Failure { prop: "C07".into(), signature: format!("c07:{kind}"), summary: format!("[{kind}] {what}: call {}: {detail}", i + 1), replay: json!({"engine": "c07", "property": "C07", "n": n, "cap": cap, "history": &ops[..=i], "kind": kind}) });
            }
        }
        if c_out.samples.len() < 10 && what.contains("slot 15") {
            c_out.samples.push(format!("{what}: {:?}", &ops[ops.len().saturating_sub(12)..]));
        }
    }
}

pub fn run_c07(tier: &str) -> Outcome {
    let t0 = Instant::now();
    crate::inflight::start_watchdog();
    let quick = crate::props::quick(tier);
    let cfgs: Vec<Cfg> = if quick {
        vec![
            Cfg { n: 2, cap: 3, depth: 3, wall: Duration::from_secs(40), labels: vec![0, 1, 2] },
            Cfg { n: 1, cap: 1, depth: 3, wall: Duration::from_secs(15), labels: vec![0, 1] },
            // a big capacity that is no power of two, an edge capacity that is none either
            Cfg { n: 7, cap: 1500, depth: 2, wall: Duration::from_secs(30), labels: vec![0, 1] },
        ]
    } else {
        vec![
            Cfg { n: 2, cap: 3, depth: 5, wall: Duration::from_secs(1500), labels: vec![0, 1, 2] },
            Cfg { n: 1, cap: 1, depth: 6, wall: Duration::from_secs(600), labels: vec![0, 1] },
            Cfg { n: 3, cap: 5, depth: 3, wall: Duration::from_secs(900), labels: vec![0, 1, 2, 3] },
            Cfg { n: 16, cap: 17, depth: 3, wall: Duration::from_secs(900), labels: vec![0, 1] },
            Cfg { n: 7, cap: 1500, depth: 3, wall: Duration::from_secs(900), labels: vec![0, 1] },
            Cfg { n: 2, cap: 1025, depth: 2, wall: Duration::from_secs(600), labels: vec![0, 1] },
            Cfg { n: 3, cap: 100, depth: 3, wall: Duration::from_secs(600), labels: vec![0, 1] },
        ]
    };
    let mut total = RunOut::default();
    let mut runs = vec![];
    for c in &cfgs {
        eprintln!("[C07] exploring the violating alphabet: Sodg<{}> capacity {} depth {}", c.n, c.cap, c.depth);
        let r = crate::with_n!(c.n, N, { explore::<N>(c, &[]) });
        eprintln!("[C07]   states {} calls {} (caught panics {}) depth {} cap {:?} findings {}", r.states, r.calls, r.counters.get("calls_ending_in_a_caught_panic").copied().unwrap_or(0), r.depth_completed, r.cap_hit, r.fail_total);
        runs.push(json!({"config": format!("Sodg<{}> capacity {} ids {:?} labels {:?}", c.n, c.cap, id_menu(c.cap), c.labels), "depth": c.depth, "depth_completed": r.depth_completed, "states": r.states, "calls": r.calls, "cap_hit": r.cap_hit, "alphabet_size": alphabet(c).len()}));
        total.states += r.states;
        total.calls += r.calls;
        total.fail_total += r.fail_total;
        for (k, v) in r.counters {
            *total.counters.entry(k).or_insert(0) += v;
        }
        for f in r.failures {
            if !total.failures.iter().any(|x| x.signature == f.signature) {
                total.failures.push(f);
            }
        }
        total.samples.extend(r.samples.into_iter().take(2));
    }
    run_directed(&mut total);
    total.calls = total.counters.get("calls").copied().unwrap_or(0);
    let mut machinery = vec![];
    for k in ["in_limit_calls", "overruns_that_must_stop", "calls_ending_in_a_caught_panic", "directed_overflow_histories"] {
        if total.counters.get(k).copied().unwrap_or(0) == 0 && total.fail_total == 0 {
            machinery.push(format!("vacuous run: '{k}' is zero"));
        }
    }
    let san = std::env::var("VX_SANITIZED").is_ok();
    Outcome {
        prop: "C07".into(),
        tier: tier.to_string(),
        level: "exploration".into(),
        coverage: json!({
            "evaluations": total.calls,
            "distinct_nontrivial": total.states,
            "rule": "breadth-first exploration of an alphabet that violates limits and preconditions on purpose (ids 0,1,2,cap-1,cap,cap+1,usize::MAX in add/bind/put/data/kid/kids/v_print/inspect/slice; equal and absent bind endpoints; the (N+1)-th label; next_id on a full graph; merge with itself, with a tree and with a non-tree; save+load; clone; exports), every call sequence up to the stated depth, objects kept and explored further after a caught panic; plus directed histories with the victim in every slot (17th member through each bind arm with the group in each slot 2..15, the (N+1)-th label on a vertex at every id, 40 groups at once, ids at/above the capacity in every call). Every call runs under AddressSanitizer when this evidence says sanitized=true. distinct_nontrivial = distinct states (complete snapshot) reached; evaluations = real calls made",
            "samples": total.samples,
            "exhaustive": true,
            "sanitized": san,
            "runs": runs,
            "counters": total.counters,
        }),
        assumptions: vec![
            "AddressSanitizer sees an access that leaves its allocation; an overflow inside one allocation (micromap's pair array inside the emap buffer) is only caught by the crate's own checked indexing, which the must-stop oracle exercises".to_string(),
            "leak detection is off: emap::Map never drops its elements (a leak, not one of the error kinds the statement lists)".to_string(),
            "claimed for builds with debug assertions (the harness is built with debug-assertions=on)".to_string(),
        ],
        failures: total.failures,
        failure_total: total.fail_total,
        wall_s: t0.elapsed().as_secs_f64(),
        machinery,
    }
}

pub fn replay(v: &Value) -> i32 {
    let n = v["n"].as_u64().unwrap_or(2) as usize;
    let cap = v["cap"].as_u64().unwrap_or(3) as usize;
    let Ok(hist) = serde_json::from_value::<Vec<VOp>>(v["history"].clone()) else { return 2 };
    let kind = v["kind"].as_str().unwrap_or("");
    println!("replaying on Sodg<{n}> capacity {cap}: {hist:?}");
    let c = Cfg { n, cap, depth: 0, wall: Duration::from_secs(60), labels: vec![0, 1, 2] };
    crate::inflight::begin_case(|| case_json(&c, &hist));
    let mut counters = BTreeMap::new();
    let finding = crate::with_n!(n, N, {
        let (g, clean, f) = replay_hist::<N>(&c, &hist, &mut counters);
        if kind == "crash-or-hang" {
            // the recorded state died while it was expanded: make every call of the alphabet from it
            for op in alphabet(&c) {
                if let Ok(mut g1) = guarded(|| g.clone()) {
                    let _ = call(&mut g1, clean.clone(), &op, &mut counters);
                }
            }
        }
        f
    });
    match finding {
        Some((k, d)) => {
            println!("  observed [{k}]: {d}");
            println!("REPRODUCED property=C07");
            1
        }
        None => {
            println!("NOT REPRODUCED property=C07 (no oracle failure; a sanitizer abort would have ended this process)");
            0
        }
    }
}
