//! Re-execution of a failing case from scratch, without the explorer.

use crate::hx::{self, drain_probe, Finding, HxCfg, Probes, Violation};
use crate::model::{Model, Op};
use serde_json::Value;
use sodg::Sodg;

/// Run a history step by step; returns the findings of the last step (for a
/// transition failure) or of the probes on the final state.
pub fn rerun_hx(n: usize, cap: usize, labels: &[u8], track_returned: bool, probes: &Probes, history: &[Op], at: &str, prop: &'static str) -> Result<Vec<Finding>, String> {
    crate::with_n!(n, N, {
        let mut g: Sodg<N> = Sodg::empty(cap);
        let mut m = Model::new(cap, n, track_returned);
        let last = history.len().saturating_sub(1);
        for (i, op) in history.iter().enumerate() {
            let (_, f) = hx::step(labels, &mut g, &mut m, op);
            if at == "transition" && i == last {
                return Ok(f);
            }
            if !f.is_empty() {
                return Err(format!("the history diverges from the model already at step {i} ({}): {}", op.text(), f[0].detail));
            }
        }
        let mut fs = vec![];
        if probes.drain {
            fs.extend(drain_probe(&g, &m, false));
            fs.extend(drain_probe(&g, &m, true));
        }
        let mut cfg = HxCfg::new(prop, "replay", n, cap, &[], labels, &[]);
        cfg.probes = probes.clone();
        cfg.track_returned = track_returned;
        let h = history.to_vec();
        let mut runs = 0;
        let mut counters = Default::default();
        crate::probes::run_all::<N>(&cfg, &g, &m, &|| h.clone(), &mut fs, &mut runs, &mut counters);
        Ok(fs)
    })
}

fn leak(s: &str) -> &'static str {
    Box::leak(s.to_string().into_boxed_str())
}

pub fn replay_hx_violation(v: &Violation, labels: &[u8], track_returned: bool, probes: &Probes) -> Result<bool, String> {
    let fs = rerun_hx(v.n, v.cap, labels, track_returned, probes, &v.history, &v.at, leak(&v.prop))?;
    Ok(fs.iter().any(|f| f.kind == v.kind))
}

/// `vx replay <file>`: exit 1 if the recorded failure reproduces, 0 if not.
pub fn replay_file(path: &str) -> i32 {
    let txt = match std::fs::read_to_string(path) {
        Ok(t) => t,
        Err(e) => {
            println!("cannot read {path}: {e}");
            return 2;
        }
    };
    let v: Value = match serde_json::from_str(&txt) {
        Ok(v) => v,
        Err(e) => {
            println!("cannot parse {path}: {e}");
            return 2;
        }
    };
    let engine = v["engine"].as_str().unwrap_or("");
    match engine {
        "hx" => {
            let history: Vec<Op> = serde_json::from_value(v["history"].clone()).expect("history");
            let labels: Vec<u8> = serde_json::from_value(v["labels"].clone()).expect("labels");
            let p = &v["probes"];
            let probes = Probes {
                drain: p["drain"].as_bool().unwrap_or(false),
                clone: p["clone"].as_bool().unwrap_or(false),
                reload: p["reload"].as_bool().unwrap_or(false),
                cuts: p["cuts"].as_bool().unwrap_or(false),
                slice: p["slice"].as_bool().unwrap_or(false),
                exports: p["exports"].as_bool().unwrap_or(false),
                texts: p["texts"].as_bool().unwrap_or(false),
                lockstep: serde_json::from_value(p["lockstep"].clone()).unwrap_or_default(),
                rerun: p["rerun"].as_u64().unwrap_or(0) as usize,
            };
            let prop = leak(v["property"].as_str().unwrap_or("?"));
            let kind = v["kind"].as_str().unwrap_or("");
            println!("replaying on the real code: {}", crate::model::hist_text(&history));
            match rerun_hx(
                v["n"].as_u64().unwrap() as usize,
                v["cap"].as_u64().unwrap() as usize,
                &labels,
                v["track_returned"].as_bool().unwrap_or(false),
                &probes,
                &history,
                v["at"].as_str().unwrap_or("transition"),
                prop,
            ) {
                Err(e) => {
                    println!("replay: {e}");
                    2
                }
                Ok(fs) => {
                    for f in &fs {
                        println!("  observed [{}] tags {:?}: {}", f.kind, f.tags, f.detail);
                    }
                    if fs.iter().any(|f| f.kind == kind) {
                        println!("REPRODUCED property={prop} kind={kind}");
                        1
                    } else {
                        println!("NOT REPRODUCED property={prop} kind={kind}");
                        0
                    }
                }
            }
        }
        other => crate::gen::replay(other, &v),
    }
}
