//! Re-execution of a failing case from scratch, without the explorer.

use crate::hx::{self, drain_probe, Finding, HxCfg, Probes, Violation};
use crate::model::{Model, Op};
use serde_json::Value;
use sodg::Sodg;

/// Run a history step by step; returns the findings of the last step (for a
/// transition failure) or of the probes on the final state.
pub fn rerun_hx(cfg: &HxCfg, history: &[Op], at: &str, aux: Option<&Vec<Op>>) -> Result<Vec<Finding>, String> {
    hx::set_observe_flags(cfg);
    crate::with_n!(cfg.n, N, {
        // differential oracles: the other history registers its result first
        if let Some(a) = aux {
            let mut g: Sodg<N> = Sodg::empty(cfg.cap);
            let mut m = Model::new(cfg.cap, cfg.n, cfg.track_returned);
            for op in a {
                hx::step_nocheck(&mut g, &mut m, op)?;
            }
            let mut fs = vec![];
            let mut runs = 0;
            let mut counters = Default::default();
            crate::probes::run_all::<N>(cfg, &g, &m, &|| a.clone(), &mut fs, &mut runs, &mut counters);
        }
        let mut g: Sodg<N> = Sodg::empty(cfg.cap);
        let mut m = Model::new(cfg.cap, cfg.n, cfg.track_returned);
        let last = history.len().saturating_sub(1);
        for (i, op) in history.iter().enumerate() {
            if at == "transition" && i == last {
                crate::dirty::before_last_step();
            }
            let (_, f) = hx::step(&cfg.labels, &mut g, &mut m, op);
            if at == "transition" && i == last {
                let mut f = f;
                if !cfg.probes.lockstep.is_empty() || cfg.probes.rerun > 0 {
                    let h = history.to_vec();
                    let mut counters = Default::default();
                    crate::probes::lockstep_probe::<N>(cfg, &|| h.clone(), &mut f, &mut counters);
                }
                return Ok(f);
            }
            if !f.is_empty() {
                return Err(format!("the history diverges from the model already at step {i} ({}): {}", op.text(), f[0].detail));
            }
        }
        let mut fs = vec![];
        crate::dirty::before_last_step();
        if cfg.probes.drain {
            fs.extend(drain_probe(&g, &m, false));
            fs.extend(drain_probe(&g, &m, true));
        }
        let h = history.to_vec();
        let mut runs = 0;
        let mut counters = Default::default();
        crate::inflight::begin_case(|| crate::report::hx_case_json(cfg, history, "probe", "crash-or-hang", "replay", aux));
        crate::probes::run_all::<N>(cfg, &g, &m, &|| h.clone(), &mut fs, &mut runs, &mut counters);
        Ok(fs)
    })
}

pub fn replay_hx_violation(cfg: &HxCfg, v: &Violation) -> Result<bool, String> {
    let mut c = cfg.clone();
    c.shared = std::sync::Arc::default();
    let fs = rerun_hx(&c, &v.history, &v.at, v.aux.as_ref())?;
    if v.kind.starts_with("continuation-differs-after-") {
        // differential kind: the history diverges at its last step, and the history without the swaps does not
        let is_swap = |o: &Op| if v.kind.ends_with("reload") { matches!(o, Op::ReloadSwap) } else { matches!(o, Op::CloneSwap | Op::CloneFromSwap) };
        let stripped: Vec<Op> = v.history.iter().copied().filter(|o| !is_swap(o)).collect();
        return Ok(!fs.is_empty() && hx::history_follows_model(&c, &stripped));
    }
    Ok(fs.iter().any(|f| f.kind == v.kind))
}

fn leak(s: &str) -> &'static str {
    Box::leak(s.to_string().into_boxed_str())
}

pub fn hx_cfg_from_json(v: &Value) -> HxCfg {
    let list = |k: &str| -> Vec<usize> { serde_json::from_value(v[k].clone()).unwrap_or_default() };
    let list8 = |k: &str| -> Vec<u8> { serde_json::from_value(v[k].clone()).unwrap_or_default() };
    let mut c = HxCfg::new(
        leak(v["property"].as_str().unwrap_or("?")),
        "replay",
        v["n"].as_u64().unwrap_or(2) as usize,
        v["cap"].as_u64().unwrap_or(3) as usize,
        &list("ids"),
        &list8("labels"),
        &list8("data"),
    );
    let p = &v["probes"];
    c.probes = Probes {
        drain: p["drain"].as_bool().unwrap_or(false),
        clone: p["clone"].as_bool().unwrap_or(false),
        reload: p["reload"].as_bool().unwrap_or(false),
        cuts: p["cuts"].as_bool().unwrap_or(false),
        slice: p["slice"].as_bool().unwrap_or(false),
        slice_add: p["slice_add"].as_bool().unwrap_or(false),
        exports: p["exports"].as_bool().unwrap_or(false),
        texts: p["texts"].as_bool().unwrap_or(false),
        lockstep: serde_json::from_value(p["lockstep"].clone()).unwrap_or_default(),
        rerun: p["rerun"].as_u64().unwrap_or(0) as usize,
    };
    let o = &v["ops"];
    c.next_id = o["next_id"].as_bool().unwrap_or(true);
    c.add_next = o["add_next"].as_bool().unwrap_or(true);
    c.clone_swap = o["clone_swap"].as_bool().unwrap_or(false);
    c.clone_from_swap = o["clone_from_swap"].as_bool().unwrap_or(false);
    c.reload_swap = o["reload_swap"].as_bool().unwrap_or(false);
    c.merges = serde_json::from_value(o["merges"].clone()).unwrap_or_default();
    c.merge_fails = serde_json::from_value(o["merge_fails"].clone()).unwrap_or_default();
    c.scripts = serde_json::from_value(o["scripts"].clone()).unwrap_or_default();
    c.track_returned = v["track_returned"].as_bool().unwrap_or(false);
    c
}

/// `vx replay <file>`: exit 1 if the recorded failure reproduces, 0 if not.
pub fn replay_file(path: &str) -> i32 {
    let rc = replay_file_once(path);
    if rc != 0 {
        return rc;
    }
    // some cases are run right after calls that fail on unrelated objects (harness/src/dirty.rs):
    // a failure that needs that to show (hidden state in the thread or the process) reproduces now
    for (k, what) in [(1u8, "calls that FAIL"), (2u8, "complete, successful calls")] {
        println!("(once more, this time with {what} on unrelated graphs and values in the same thread right before the last step)");
        crate::dirty::set_before_last(k);
        if k == 1 {
            crate::dirty::failing_calls();
        } else {
            crate::dirty::foreign_calls();
        }
        let rc = replay_file_once(path);
        crate::dirty::set_before_last(0);
        if rc != 0 {
            if rc == 1 {
                println!("NOTE: the failure shows only when {what} on UNRELATED objects came before it in the same thread: some state outside the graph or value leaks from one object to another");
            }
            return rc;
        }
    }
    0
}

fn replay_file_once(path: &str) -> i32 {
    let txt = match std::fs::read_to_string(path) {
        Ok(t) => t,
        Err(e) => {
            println!("cannot read {path}: {e}");
            return 2;
        }
    };
    let v: Value = match serde_json::from_str(&txt) {
        Ok(v) => v,
        Err(e) => {
            println!("cannot parse {path}: {e}");
            return 2;
        }
    };
    crate::inflight::start_watchdog();
    let engine = v["engine"].as_str().unwrap_or("");
    match engine {
        "hx" => {
            let history: Vec<Op> = serde_json::from_value(v["history"].clone()).expect("history");
            let aux: Option<Vec<Op>> = serde_json::from_value(v["aux_history"].clone()).ok().flatten();
            let cfg = hx_cfg_from_json(&v);
            let kind = v["kind"].as_str().unwrap_or("");
            println!("replaying on the real code (Sodg<{}>, capacity {}): {}", cfg.n, cfg.cap, crate::model::hist_text(&history));
            if kind == "crash-or-hang" {
                println!("(the recorded failure is a crash or a hang: if this command dies or is stopped by the watchdog, it has reproduced)");
            }
            match rerun_hx(&cfg, &history, v["at"].as_str().unwrap_or("transition"), aux.as_ref()) {
                Err(e) => {
                    println!("replay: {e}");
                    2
                }
                Ok(fs) => {
                    for f in &fs {
                        println!("  observed [{}] tags {:?}: {}", f.kind, f.tags, f.detail);
                    }
                    let differential = kind.starts_with("continuation-differs-after-") && !fs.is_empty() && {
                        let is_swap = |o: &Op| if kind.ends_with("reload") { matches!(o, Op::ReloadSwap) } else { matches!(o, Op::CloneSwap | Op::CloneFromSwap) };
                        let stripped: Vec<Op> = history.iter().copied().filter(|o| !is_swap(o)).collect();
                        hx::history_follows_model(&cfg, &stripped)
                    };
                    if differential || fs.iter().any(|f| f.kind == kind) {
                        println!("REPRODUCED property={} kind={kind}", cfg.prop);
                        1
                    } else {
                        println!("NOT REPRODUCED property={} kind={kind}", cfg.prop);
                        0
                    }
                }
            }
        }
        other => crate::gen::replay(other, &v),
    }
}
