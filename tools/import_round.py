#!/usr/bin/env python3
"""import_round.py <log> <rN> <src root> : imports the changes of one round from a campaign log made of
'=== Cxx/outN/mK' (or '=== Cxx-mK') blocks holding a CONFIRMED line of tools/verify_seeded.sh and the
FIRED / SILENT / MACHINERY lines of the first run of the change's own quick check (tools/camp.sh, i.e. in a
copy of /verif and /repo: what the harness of that moment caught). The final result against /repo itself
is added later by tools/final_matrix.sh ('fired_final')."""
import re, subprocess, sys, os, json
log = open(sys.argv[1]).read(); rnd = sys.argv[2]; root = sys.argv[3]
blocks = re.split(r"^=== ", log, flags=re.M)[1:]
for b in blocks:
    head = b.splitlines()[0].strip()
    m = re.match(r"(C\d\d)[/-](?:out\d/)?(m\d)", head)
    if not m: continue
    prop, mi = m.groups()
    src = None
    for cand in (f"{root}/{prop}-{mi}", f"{root}/{prop}/out{rnd[1:]}/{mi}"):
        if os.path.exists(cand + "/patch.diff"): src = cand
    if not src: print("no source for", head); continue
    if "CONFIRMED" not in b: print("not confirmed:", head); continue
    sid = f"{prop}-{rnd}{mi}"
    fired = re.search(r"^FIRED: (.*)$", b, flags=re.M); silent = re.search(r"^SILENT: (.*)$", b, flags=re.M); mach = re.search(r"^MACHINERY: (.*)$", b, flags=re.M)
    if not fired: print("no result for", head); continue
    f = "" if fired.group(1).strip() == "none" else ",".join(fired.group(1).split())
    s = "" if silent.group(1).strip() == "none" else ",".join(silent.group(1).split())
    note = "first run: only the change's own quick check, in a copy of /verif and /repo (tools/camp.sh), with the harness as it stood when the change came in"
    if mach and mach.group(1).strip() != "none": note += f"; machinery errors (exit 2, no verdict) in that run: {mach.group(1).strip()}"
    conf = "tools/verify_seeded.sh: patch applies in a scratch worktree, builds with --features verif, the 94 tests + 42 doctests pass with it, demo.rs fails with it and passes without it"
    subprocess.run(["/verif/tools/import_seeded.py", src, sid, conf, f, s, note], check=True)
    mp = f"/verif/seeded/{sid}/meta.json"; meta = json.load(open(mp))
    meta["checks_run"] = "tools/camp.sh try <dir> (the change's own quick check in a scratch copy), then tools/final_matrix.sh against /repo itself (fired_final)"
    json.dump(meta, open(mp, "w"), indent=1, ensure_ascii=False)
