#!/usr/bin/env bash
# tools/try_mutant.sh <patch.diff> [tier] [props...]
# Applies a seeded change to /repo, runs the checks (all 20 by default), prints which
# ones raise a VIOLATION, and ALWAYS reverts /repo afterwards. One mutant at a time.
set -u
PATCH="$(readlink -f "$1")"; shift
TIER="${1:-quick}"; [ $# -gt 0 ] && shift
PROPS=("$@")
[ ${#PROPS[@]} -eq 0 ] && PROPS=(C01 C02 C03 C04 C05 C06 C07 C08 C09 C10 C11 C12 C13 C14 C15 C16 C17 C18 C19 C20)
cd /verif
if ! git -C /repo diff --quiet; then echo "/repo has uncommitted changes; refusing"; exit 2; fi
trap 'git -C /repo checkout -- . ; echo "(reverted /repo)"' EXIT
git -C /repo apply "$PATCH" || { echo "patch does not apply"; exit 2; }
fired=(); silent=(); broken=()
for p in "${PROPS[@]}"; do
  out="$(./check "$p" "$TIER" 2>/dev/null)"; rc=$?
  case $rc in
    0) silent+=("$p") ;;
    1) fired+=("$p"); echo "--- $p:"; echo "$out" | grep -A1 -m2 VIOLATION | cut -c1-400 ;;
    *) broken+=("$p"); echo "--- $p: machinery rc=$rc"; echo "$out" | grep -m2 MACHINERY | cut -c1-300 ;;
  esac
done
echo "FIRED: ${fired[*]:-none}"
echo "SILENT: ${silent[*]:-none}"
echo "MACHINERY: ${broken[*]:-none}"
