#!/usr/bin/env bash
# tools/camp.sh - exploratory runs of seeded changes in a COPY (never /repo, never /verif's evidence):
#   camp.sh init                 scratch worktree /tmp/camp/repo + copy of /verif in /tmp/camp/verif pointed at it
#   camp.sh sync                 bring the copy of /verif up to date with the working tree of /verif
#   camp.sh try <dir> [props..]  apply <dir>/patch.diff to the scratch worktree, run the quick checks
#                                (default: the property in <dir>/meta.json), revert; prints FIRED/SILENT
# Results obtained here are not evidence; what is recorded in seeded/*/meta.json is re-run in /verif
# against /repo (tools/try_mutant.sh).
set -u
C=${CAMP:-/tmp/camp}
case "${1:-}" in
  init)
    mkdir -p $C
    [ -d $C/repo ] || git -C /repo worktree add --detach $C/repo HEAD >/dev/null
    ;&
  sync)
    mkdir -p $C/verif
    rsync -a --delete --exclude .git --exclude 'harness/target*' --exclude .work --exclude replays --exclude seeded --exclude controls --exclude notes /verif/ $C/verif/
    sed -i "s#path = \"/repo\"#path = \"$C/repo\"#" $C/verif/harness/Cargo.toml
    ;;
  try)
    D="$(readlink -f "$2")"; shift 2
    PROPS=("$@")
    [ ${#PROPS[@]} -eq 0 ] && PROPS=($(python3 -c "import json,sys;print(json.load(open('$D/meta.json'))['property'])"))
    git -C $C/repo checkout -q -- . 
    git -C $C/repo apply "$D/patch.diff" || { echo "patch does not apply"; exit 2; }
    fired=(); silent=(); broken=()
    for p in "${PROPS[@]}"; do
      out="$(cd $C/verif && ./check "$p" quick 2>/dev/null)"; rc=$?
      case $rc in
        0) silent+=("$p") ;;
        1) fired+=("$p"); echo "--- $p:"; echo "$out" | grep -A1 -m2 VIOLATION | cut -c1-500 ;;
        *) broken+=("$p"); echo "--- $p: machinery rc=$rc"; echo "$out" | grep -m2 MACHINERY | cut -c1-300 ;;
      esac
    done
    git -C $C/repo checkout -q -- .
    echo "FIRED: ${fired[*]:-none}"; echo "SILENT: ${silent[*]:-none}"; echo "MACHINERY: ${broken[*]:-none}"
    ;;
  *) echo "usage: camp.sh init|sync|try <dir> [props]"; exit 2 ;;
esac
