#!/usr/bin/env python3
"""Prints a markdown summary of /verif/evidence/*.json (what each check covered in its last run)."""
import json, glob, os
for f in sorted(glob.glob("/verif/evidence/C*.json")):
    e = json.load(open(f)); c = e["coverage"]
    print(f"### {e['property_id']} ({e['tier']}, {e['level']}, {e['wall_s']} s, violations {e.get('violations')})")
    hx = c if "runs" in c and "states" in c else c.get("hx")
    if hx and "runs" in hx:
        for r in hx["runs"]:
            print(f"- HX `{r['config'][:150]}`: {r['states']} states, {r['transitions']} transitions, depth {r['depth_completed']}, closed={r['closed']}, cap={r['cap_hit']}")
    for k in ("directed_family", "graphgen"):
        if k in c:
            d = c[k]; print(f"- {k}: " + ", ".join(f"{a}={d[a]}" for a in d if isinstance(d[a], (int, float))))
    if "evaluations" in c:
        print(f"- evaluations {c['evaluations']}, distinct_nontrivial {c['distinct_nontrivial']}")
    if "counters" in c:
        print("- counters: " + json.dumps(c["counters"], ensure_ascii=False)[:600])
    print()
