#!/usr/bin/env python3
"""import_batch.py <log> : parses a try_mutant campaign log ('=== Cxx/out/m1' blocks with FIRED/SILENT/MACHINERY
lines) and imports each mutant into /verif/seeded/<id>/ via import_seeded.py (confirmation is re-stated from
tools/verify_seeded.sh, which was run before)."""
import re, subprocess, sys, os, json
log = open(sys.argv[1]).read()
blocks = re.split(r"^=== ", log, flags=re.M)[1:]
for b in blocks:
    head = b.splitlines()[0].strip()
    m = re.match(r"(C\d\d)/(?:(out[234]?)/)?(m\d)", head)
    if not m: continue
    prop, rnd, mi = m.groups()
    rnd = rnd or "out"
    src = f"/tmp/mut/{prop}/{rnd}/{mi}"
    sid = f"{prop}-{ {'out':'r1','out2':'r2','out3':'r3','out4':'r4'}[rnd] }{mi}"
    fired = re.search(r"^FIRED: (.*)$", b, flags=re.M); silent = re.search(r"^SILENT: (.*)$", b, flags=re.M); mach = re.search(r"^MACHINERY: (.*)$", b, flags=re.M)
    if not fired: continue
    f = "" if fired.group(1).strip()=="none" else ",".join(fired.group(1).split())
    s = "" if silent.group(1).strip()=="none" else ",".join(silent.group(1).split())
    note = "" if (not mach or mach.group(1).strip()=="none") else f"machinery errors (exit 2, no verdict) at the time of this run: {mach.group(1).strip()}"
    conf = "tools/verify_seeded.sh: patch applies in a scratch worktree, builds with --features verif, the 94 tests + 42 doctests pass with it, demo.rs fails with it and passes without it"
    subprocess.run(["/verif/tools/import_seeded.py", src, sid, conf, f, s, note], check=True)
