#!/usr/bin/env python3
"""Prints the markdown table of DESIGN.md section 8 from /verif/seeded/*/meta.json."""
import json, glob, os, re
rows = []
for d in sorted(glob.glob("/verif/seeded/*")):
    f = os.path.join(d, "meta.json")
    if not os.path.exists(f): continue
    m = json.load(open(f)); sid = os.path.basename(d)
    def short(t, n):
        t = re.sub(r"\s+", " ", str(t)).replace("|", "/")
        return t if len(t) <= n else t[: n - 1] + "…"
    fired = m.get("fired_final", m.get("fired", []))
    own = m.get("property", "?")
    verdict = "**caught** by " + " ".join(fired) if own in fired else ("caught by " + " ".join(fired) + f" (not by {own})" if fired else "**missed**")
    if m.get("classification"): verdict += " — " + m["classification"]
    rows.append(f"| `{sid}` | {own} | {short(m.get('summary',''), 230)} | {short(m.get('needs',''), 200)} | {verdict} |")
print("| seeded change | breaks | what was changed | what it needs to manifest | quick checks that fire |")
print("|---|---|---|---|---|")
print("\n".join(rows))
