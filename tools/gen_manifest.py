#!/usr/bin/env python3
"""Writes /verif/MANIFEST.json from the table below (kept in one place so it stays valid)."""
import json, os, subprocess
ROOT = os.path.dirname(os.path.dirname(os.path.abspath(__file__)))

def repo_commits(prefix):
    out = subprocess.run(["git", "-C", "/repo", "log", "--format=%h %s"], capture_output=True, text=True).stdout
    return [l.split()[0] for l in out.splitlines() if l.split(" ", 1)[1].startswith(prefix)]

MC = "model_checking"; EX = "exploration"; FE = "fault_enumeration"
HXNOTE = ("Assumes the reference model (harness/src/model.rs) is the right reading of the statement; verdicts use the public API only, "
          "the verif_snapshot() hook feeds the deduplication key; bounded by the id/label/data alphabets and configurations listed in the evidence.")
CHECKS = {
 # id: (engine, level, text, note, technique, design_ref)
}
def add(pid, engine, level, text, note, technique, ref):
    CHECKS[pid] = (engine, level, text, note, technique, ref)

add("C01", "HX", MC, "Explicit-state exploration of the product (real Sodg x reference model): every history over small id/label/data alphabets, to closure where the state graph closes (then histories of any length are covered) and depth-bounded elsewhere; after every call the alive set may only shrink as the model's first-read rule allows.", HXNOTE, "explicit-state model checking of the implementation (BFS, lossless state keys) against an executable reference model", "5/C01")
add("C02", "HX", MC, "Same exploration; oracle = alive set equals the model's after every call, no in-limit call panics, plus a drain probe on every state that turns latent counter drift into an observable divergence; directed exhaustive families for 16-member groups.", HXNOTE, "explicit-state model checking of the implementation against a reference model + exhaustive directed families", "5/C02")
add("C03", "HX", MC, "Same exploration with richer label/data alphabets; after every call kid()/kids() of every present vertex and every data() return value equal the model.", HXNOTE, "explicit-state model checking of the implementation against a reference model + exhaustive value sweep", "5/C03")
add("C04", "HX", MC, "Same exploration incl. recycled-slot seeds; every add() is judged: blank vertex on an absent id, and on a present id a differential oracle (reading everything goes exactly as without the add).", HXNOTE, "explicit-state model checking of the implementation, differential oracle on add()", "5/C04")
add("C05", "HX", MC, "Exploration with next_id() as its own transition (result recorded, not added) interleaved with add/bind/put/data/collections/clone/merge; the model carries the set of ids returned so far.", HXNOTE, "explicit-state model checking of the implementation with a returned-id set in the model state", "5/C05")

NOT_YET = {}

def main():
    built = sorted(CHECKS)
    checks = []
    for pid in built:
        engine, level, text, note, technique, ref = CHECKS[pid]
        checks.append({
            "property_id": pid,
            "quick_cmd": f"./check {pid} quick",
            "thorough_cmd": f"./check {pid} thorough",
            "evidence_file": f"/verif/evidence/{pid}.json",
            "replay_cmd_template": "./check replay {path}",
            "engine": engine,
            "level_claimed": {"category": level, "text": text, "design_ref": f"DESIGN.md section {ref}"},
            "level_note": note,
            "technique": technique,
        })
    allp = [json.loads(l)["id"] for l in open(os.path.join(ROOT, "properties.jsonl"))]
    na = [{"property_id": p, "reason": NOT_YET.get(p, "check not built yet (work in progress; see DESIGN.md section 12)")} for p in allp if p not in CHECKS]
    m = {
        "version": 1,
        "setup_cmd": "./check setup",
        "hooks": {
            "guard": "verif",
            "enable": "cargo feature: the harness depends on sodg = { path = \"/repo\", features = [\"verif\"] }",
            "baseline_off_cmd": "cd /repo && cargo test --workspace --no-fail-fast --offline",
            "source_commits": repo_commits("verif hook"),
            "add_only": True,
        },
        "engines": [
            {"name": "HX", "path": "harness/src/hx.rs", "serves_properties": [p for p in built if CHECKS[p][0].startswith("HX")], "kind_free_text": "explicit-state explorer: BFS over the product of the real Sodg<N> and the reference model, transition function = real code, lossless dedup keys from the verif_snapshot() hook"},
        ],
        "checks": checks,
        "notes": "Fix commits in /repo: " + ", ".join(repo_commits("fix:")) + ". Known findings: /verif/KNOWN_FINDINGS.txt.",
        "not_applicable": na,
    }
    json.dump(m, open(os.path.join(ROOT, "MANIFEST.json"), "w"), indent=1, ensure_ascii=False)
    print("wrote MANIFEST.json with", len(checks), "checks;", len(na), "not claimed")

main()
