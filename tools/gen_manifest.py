#!/usr/bin/env python3
"""Writes /verif/MANIFEST.json from the table below (kept in one place so it stays valid)."""
import json, os, subprocess
ROOT = os.path.dirname(os.path.dirname(os.path.abspath(__file__)))

def repo_commits(prefix):
    out = subprocess.run(["git", "-C", "/repo", "log", "--format=%h %s"], capture_output=True, text=True).stdout
    return [l.split()[0] for l in out.splitlines() if l.split(" ", 1)[1].startswith(prefix)]

MC = "model_checking"; EX = "exploration"; FE = "fault_enumeration"
HXNOTE = ("Assumes the reference model (harness/src/model.rs) is the right reading of the statement; verdicts use the public API only, "
          "the verif_snapshot() hook feeds the deduplication key; bounded by the id/label/data alphabets and configurations listed in the evidence. "
          "State kept outside the graph (caches, memos, scratch buffers in thread-locals, statics or behind an address) is exercised by observed histories, a decoy graph "
          "swapped into the same address, and calls on unrelated objects (failing half-way / complete) before part of the states (DESIGN.md section 2.0), only along those fixed paths.")
CHECKS = {
 # id: (engine, level, text, note, technique, design_ref)
}
def add(pid, engine, level, text, note, technique, ref):
    CHECKS[pid] = (engine, level, text, note, technique, ref)

GENNOTE = ("Bounded-exhaustive enumeration: every case inside the stated bounds is generated and executed on the real code inside catch_unwind; "
           "the oracle is a reference function written in the harness. Nothing is sampled.")
add("C01", "HX", MC, "Explicit-state exploration of the product (real Sodg x reference model): every history over small id/label/data alphabets incl. next_id, clone, save+load, merge and refused-merge transitions (after a refusal the model takes over the left graph as found and the history goes on), to closure where the state graph closes (then histories of any length are covered) and depth-bounded elsewhere, plus seeded runs; after every call the alive set may only shrink as the model's first-read rule allows.", HXNOTE, "explicit-state model checking of the implementation (BFS, lossless state keys) against an executable reference model", "5/C01")
add("C02", "HX+family", MC, "Same exploration; oracle = alive set equals the model's after every call, no in-limit call panics, plus a drain probe on every state that turns latent counter drift into an observable divergence; directed exhaustive family: all 2^14 ways to grow a group to 16 members.", HXNOTE, "explicit-state model checking of the implementation against a reference model + exhaustive directed family in lock-step with the model", "5/C02")
add("C03", "HX+sweep", MC, "Same exploration with richer label/data alphabets (label capacity hit); after every call kid()/kids() of every present vertex and every data() return value equal the model; exhaustive value sweep over 40 labels x data lengths 0..=17 x N in {1,2,16}.", HXNOTE, "explicit-state model checking of the implementation against a reference model + exhaustive value sweep", "5/C03")
add("C04", "HX", MC, "Same exploration incl. recycled-slot seeds; every add() is judged: blank vertex on an absent id, and on a present id a differential oracle (reading everything, in both orders, goes exactly as without the add).", HXNOTE, "explicit-state model checking of the implementation, differential oracle on add()", "5/C04")
add("C05", "HX+family", MC, "Exploration with next_id() as its own transition (result recorded, not added) interleaved with add/bind/put/data/collections/clone/reload/merge; the model state carries the set of ids returned so far, so a repeated id is seen whatever the allocation policy; directed families: runs of present vertices at the allocator position in stores of capacity 1..1024, ids handed to script variables by succeeding and failing scripts, and every merge of a right graph on 2-3 vertices that is not a tree onto 452 left shapes followed by next_id() calls (oracle read off the real graph: below the capacity, absent, not handed out or created before).", HXNOTE, "explicit-state model checking of the implementation with the returned-id set in the model state", "5/C05")
add("C06", "HX+family", MC, "Closure runs (a closed state graph covers histories of any length: the 15th, 150th group still forms and dies) + directed exhaustive family at full scale: 14 groups, every occupancy pattern killed, then 45..300 create-put-read cycles with 0..13 groups kept alive, in lock-step with the model.", HXNOTE, "explicit-state model checking to closure + exhaustive directed family in lock-step with the model", "5/C06")
add("C07", "C07-explorer under ASan", EX, "Breadth-first exploration of an alphabet that violates limits and preconditions on purpose, every call sequence up to a depth, objects explored further after caught panics, plus directed overflow histories with the victim in every slot; the explorer binary is built with AddressSanitizer and supervised: a sanitizer abort becomes a VIOLATION with the state in flight. Oracles: in-limit calls complete; the three named overruns stop.", "Exhaustive enumeration, dynamic detector: AddressSanitizer sees accesses that leave their allocation, not overflows inside one allocation; leak detection off (emap never drops elements); debug assertions on, as the property says.", "bounded exhaustive exploration of call sequences on the real code under AddressSanitizer", "5/C07")
add("C08", "HX+family", MC, "Exploration with reload (save+load) as a transition: the reloaded object is the next state and every continuation from it is checked against the model (whose reload only resets the allocator); plus a reload probe on every state comparing every public observable and the course of all future reads; 5 data encodings, 3 label kinds, N in {1,2,16}, capacities 3..256; a continuation that diverges from the model although the same calls without the reload follow it is blamed on the reload (differential); directed family: 1..14 groups alive, reload (once or three times), everything read.", HXNOTE + " Images are written to tmpfs (/dev/shm) or /verif/.work.", "explicit-state model checking of the implementation with save+load as a transition", "5/C08")
add("C09", "HX+CUTS", FE, "Every distinct image produced by the exploration (deduplicated by content) is cut IN PLACE (the file save() wrote over the complete image of another graph) at every byte position 0 <= k < size and passed to the real load(): each must be Err, never a panic, never a graph (neither the new one nor the older one); the complete image must load.", "Fault model: truncation at any byte (what a crash during the single non-atomic fs::write leaves); no bit flips. Images come from the reachable states of the HX runs listed in the evidence.", "fault enumeration: all prefixes of all distinct reachable images", "5/C09")
add("C10", "HX+family", MC, "Exploration with clone-swap as a transition + clone probe on every state: the original is rebuilt from Sodg::empty() by replaying the whole history (no clone involved), its clone must answer every query alike, behave alike under all future reads and next_id calls, and mutating either never changes the other's complete snapshot; a continuation that diverges from the model although the same calls without the clone follow it is blamed on the clone (differential); directed family: 1..14 groups alive, clone (once or three times), everything read.", HXNOTE + " Whole-snapshot equality is used only for 'the other object did not change', where no call was made on it.", "explicit-state model checking of the implementation with clone as a transition, differential original-vs-clone oracle", "5/C10")
add("C11", "TREEGEN", EX, "Every pair of labelled trees up to a size bound x every data placement x id assignments (incl. recycled slots) x every left: merge on the real code, the graft applied to the reference model as add/bind/put, then every order of reads compared with the model.", GENNOTE + " Checked up to the choice of new ids. The merge inside longer histories is additionally a transition of the HX runs.", "bounded exhaustive enumeration of tree pairs against a reference model", "5/C11")
add("C12", "TREEGEN+extras", EX, "Every right graph = tree + every combination of up to 3 extras (isolated vertex, isolated vertex with data, detached sub-tree), right = every node: Ok iff the reference says everything present is reachable, else Err naming exactly the unreachable vertices; after an Ok every tree vertex has a present image; after every refusal the left graph plus a stray vertex is itself merged as a right graph under the same oracle.", GENNOTE, "bounded exhaustive enumeration of right graphs against a reachability reference", "5/C12")
add("C13", "GRAPHGEN+HX", EX, "Every small digraph (all cyclic shapes, shared targets) x every start x EVERY subset of the edge set as predicate x EVERY drain order of slice's work-list (enumerated through the verif choice-point hook), wide shapes on Sodg<16>, and a slice probe on every state of the HX explorations; a hang or stack overflow is caught by the supervisor and reported with the graph in flight.", GENNOTE + " Rejected edges between kept vertices are neither required nor forbidden (the statement does not say).", "bounded exhaustive enumeration of graphs, predicates and work-list orders against a reachability reference", "5/C13")
add("C14", "PROGGEN+HX", EX, "Scripts as transitions of the history explorer (a well-formed and a failing script, with literal ids and with a $variable, deployed in every explored state - groups, unread data, recycled slots - and followed by every continuation, in lock-step with the reference model) PLUS: Every ADD/BIND/PUT program up to a length over literal ids and variables x a menu (short programs: the full product) of legal formattings: complete state after deploy_to equals state after the same direct calls; plus every single-character fault at every position, judged by a conservative three-way reference parser (well-formed / definitely malformed / grey).", GENNOTE + " Grey zone (not judged) is listed in the evidence.", "bounded exhaustive enumeration of programs, renderings and single faults against direct execution", "5/C14")
add("C15", "HEXGEN", EX, "Every length across the 8-byte boundary x content patterns x every representation of the same bytes (incl. inline arrays with non-zero padding and heap vectors of short strings) x every accessor, index and (start,end) of the six range kinds: outcome (value or panic) equals the same operation on the byte slice.", GENNOTE, "bounded exhaustive enumeration against the byte-slice reference", "5/C15")
add("C16", "HEXGEN pairs", EX, "Every pair (a,b) of lengths across the boundary in every representation: bytes(a.concat(b)) == a ++ b, operands unchanged. One known finding (inline left operand shorter than 8 bytes whose result spills), matched by a signature computed from the failing input; any other wrong result is a VIOLATION.", GENNOTE, "bounded exhaustive enumeration of operand pairs against byte-string concatenation", "5/C16")
add("C17", "LABELGEN", EX, "Every string up to length 10 over alphabets with ASCII, multi-byte Greek, 4-byte characters, alpha, digits, signs and space, classified by the statement (valid: must round-trip; too long / malformed index: must be Err; grey: no panic) + every canonical label value incl. kid() lookups under parsed vs constructed names.", GENNOTE + " Reading of 'longer than 8 characters' and the grey zone are stated in DESIGN.md section 7.", "bounded exhaustive enumeration of label texts and values", "5/C17")
add("C18", "GRAPHGEN+HX", EX, "to_xml()/to_dot() parsed back on every small digraph x data placements and on every state of the HX explorations (collections, recycled and never-added slots): nodes == present vertices in ascending order, edges and data equal; differential oracle: all states with equal content must have produced one single text.", GENNOTE + " Tolerant parsers: they look for ids, labels, targets and hex bytes, not exact punctuation.", "bounded exhaustive enumeration + export probe on all explored states, parse-back and differential oracle", "5/C18")
add("C19", "HX lock-step", MC, "Every history explored under configuration A is replayed from scratch under A again (run-to-run: fresh hash seeds) and under configurations B with other N and capacity; every return value and every public observable (kids order, ids chosen by next_id and merge, exports, inspect, slices) must be identical.", HXNOTE + " Hash seeds cannot be enumerated: run-to-run determinism is sampled by replays (slice's drain order is enumerated through the hook, C13).", "explicit-state model checking of the implementation, lock-step comparison across configurations", "5/C19")
add("C20", "GRAPHGEN+HX", EX, "inspect(v) on every vertex of every small digraph (all cyclic shapes) and of every HX state, parsed back into (source,label,target) triples that must equal the edges of all reachable vertices each exactly once; Debug/Display/v_print parsed back; non-termination (hang, stack overflow) is caught by the supervisor.", GENNOTE, "bounded exhaustive enumeration + text probes on all explored states, parse-back oracle", "5/C20")

NOT_YET = {}

def main():
    built = sorted(CHECKS)
    checks = []
    for pid in built:
        engine, level, text, note, technique, ref = CHECKS[pid]
        checks.append({
            "property_id": pid,
            "quick_cmd": f"./check {pid} quick",
            "thorough_cmd": f"./check {pid} thorough",
            "evidence_file": f"/verif/evidence/{pid}.json",
            "replay_cmd_template": "./check replay {path}",
            "engine": engine,
            "level_claimed": {"category": level, "text": text, "design_ref": f"DESIGN.md section {ref}"},
            "level_note": note,
            "technique": technique,
        })
    allp = [json.loads(l)["id"] for l in open(os.path.join(ROOT, "properties.jsonl"))]
    na = [{"property_id": p, "reason": NOT_YET.get(p, "check not built yet (work in progress; see DESIGN.md section 12)")} for p in allp if p not in CHECKS]
    m = {
        "version": 1,
        "setup_cmd": "./check setup",
        "hooks": {
            "guard": "verif",
            "enable": "cargo feature: the harness depends on sodg = { path = \"/repo\", features = [\"verif\"] }",
            "baseline_off_cmd": "cd /repo && cargo test --workspace --no-fail-fast --offline",
            "source_commits": repo_commits("verif hook"),
            "add_only": True,
        },
        "engines": [
            {"name": "HX", "path": "harness/src/hx.rs", "serves_properties": [p for p in built if "HX" in CHECKS[p][0]], "kind_free_text": "explicit-state explorer: BFS over the product of the real Sodg<N> and the reference model, transition function = real code, lossless dedup keys from the verif_snapshot() hook; per-state probes in harness/src/probes.rs"},
            {"name": "GEN", "path": "harness/src/gen/", "serves_properties": [p for p in built if "GEN" in CHECKS[p][0] or "family" in CHECKS[p][0] or "sweep" in CHECKS[p][0]], "kind_free_text": "bounded-exhaustive input enumerators (GRAPHGEN, TREEGEN, PROGGEN, HEXGEN, LABELGEN, directed families) run on the real code against reference functions"},
            {"name": "CUTS", "path": "harness/src/probes.rs", "serves_properties": ["C09"], "kind_free_text": "fault enumeration: every prefix of every distinct saved image"},
            {"name": "C07-explorer", "path": "harness/src/c07.rs", "serves_properties": ["C07"], "kind_free_text": "BFS over a limit-violating alphabet, built and run under AddressSanitizer, supervised by ./check"},
        ],
        "checks": checks,
        "notes": "Fix commits in /repo: " + ", ".join(repo_commits("fix:")) + ". Known findings: /verif/KNOWN_FINDINGS.txt.",
        "not_applicable": na,
    }
    json.dump(m, open(os.path.join(ROOT, "MANIFEST.json"), "w"), indent=1, ensure_ascii=False)
    print("wrote MANIFEST.json with", len(checks), "checks;", len(na), "not claimed")

main()
