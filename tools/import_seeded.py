#!/usr/bin/env python3
"""Copies confirmed seeded changes from the sub-agents' scratch output into /verif/seeded/<id>/ and
adds what was run here (confirmation, which checks fire) to meta.json.
usage: import_seeded.py <src dir> <id> <confirmed line> <fired csv> <silent csv> [note]"""
import json, os, shutil, sys
src, sid, confirmed, fired, silent = sys.argv[1:6]
note = sys.argv[6] if len(sys.argv) > 6 else ""
dst = os.path.join("/verif/seeded", sid)
os.makedirs(dst, exist_ok=True)
for f in ("patch.diff", "demo.rs"):
    shutil.copy(os.path.join(src, f), os.path.join(dst, f))
meta = json.load(open(os.path.join(src, "meta.json")))
meta["origin"] = "written by a sub-agent that saw only the property text and its own scratch worktree of /repo"
meta["confirmed_here"] = confirmed
meta["checks_run"] = "tools/try_mutant.sh patch.diff quick (git -C /repo apply; every ./check <id> quick; git -C /repo checkout -- .)"
meta["fired"] = [x for x in fired.split(",") if x]
meta["silent"] = [x for x in silent.split(",") if x]
if note:
    meta["note"] = note
json.dump(meta, open(os.path.join(dst, "meta.json"), "w"), indent=1, ensure_ascii=False)
print("imported", sid)
