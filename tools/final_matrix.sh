#!/usr/bin/env bash
# tools/final_matrix.sh [ids...] : for every seeded change (or the ones named) apply it to /repo, run the
# quick check of the property it was written for, record the outcome as "fired_final" in its meta.json,
# and revert /repo. One change at a time; /repo must be clean.
set -u
cd /verif
if ! git -C /repo diff --quiet; then echo "/repo has uncommitted changes; refusing"; exit 2; fi
IDS=("$@"); [ ${#IDS[@]} -eq 0 ] && IDS=($(ls seeded))
for id in "${IDS[@]}"; do
  d="seeded/$id"; prop="$(python3 -c "import json;print(json.load(open('$d/meta.json'))['property'])")"
  git -C /repo apply "/verif/$d/patch.diff" || { echo "$id: patch does not apply"; continue; }
  out="$(./check "$prop" quick 2>/dev/null)"; rc=$?
  git -C /repo checkout -- .
  first="$(echo "$out" | grep -m1 -A1 VIOLATION | tail -1 | python3 -c "import sys; print(sys.stdin.read()[:300].strip())")"
  python3 - "$d/meta.json" "$prop" "$rc" "$first" <<'PY'
import json, sys
f, prop, rc, first = sys.argv[1], sys.argv[2], int(sys.argv[3]), sys.argv[4]
m = json.load(open(f))
prev = [x for x in m.get("fired", []) if x != prop]
m["fired_final"] = ([prop] if rc == 1 else []) + prev
m["own_check_final"] = {"command": f"./check {prop} quick", "exit": rc, "first_violation": first}
json.dump(m, open(f, "w"), indent=1, ensure_ascii=False)
PY
  echo "$id: ./check $prop quick -> exit $rc"
done
