#!/usr/bin/env bash
# tools/controls_in_snapshot.sh [ids...] : meant for `vp run --with-repo -- tools/controls_in_snapshot.sh`.
# Runs in a snapshot of /verif with a snapshot of /repo's HEAD in $VP_RUN_REPO: the harness of the
# snapshot is pointed at that copy, every behaviour-preserving control (controls/<id>/patch.diff) is
# applied to it in turn, all 20 quick checks run, and the copy is reverted. /repo itself is not touched.
# Prints one line per control: which checks fired (there should be none). Not evidence; a control that
# fires is re-run in /verif against /repo (tools/try_mutant.sh) before anything is concluded.
set -u
R="${VP_RUN_REPO:?needs vp run --with-repo}"
cd "$(dirname "$0")/.."
sed -i "s#path = \"/repo\"#path = \"$R\"#" harness/Cargo.toml
IDS=("$@"); [ ${#IDS[@]} -eq 0 ] && IDS=($(ls controls | grep -v README))
./check setup >/dev/null 2>&1 || { echo "setup failed"; tail -20 harness/build.log; exit 2; }
echo "baseline:"; for p in C01 C05 C12; do ./check $p quick | grep -E "^(OK|VIOLATION|MACHINERY)" | head -2; done
for id in "${IDS[@]}"; do
  git -C "$R" apply "$(pwd)/controls/$id/patch.diff" || { echo "$id: patch does not apply"; continue; }
  fired=(); broken=()
  for p in C01 C02 C03 C04 C05 C06 C07 C08 C09 C10 C11 C12 C13 C14 C15 C16 C17 C18 C19 C20; do
    out="$(./check "$p" quick 2>/dev/null)"; rc=$?
    case $rc in 0) ;; 1) fired+=("$p"); echo "--- $id $p:"; echo "$out" | grep -A1 -m2 VIOLATION | cut -c1-400 ;; *) broken+=("$p"); echo "--- $id $p: machinery rc=$rc"; echo "$out" | grep -m2 MACHINERY | cut -c1-300 ;; esac
  done
  git -C "$R" checkout -- .
  echo "$id: FIRED: ${fired[*]:-none} MACHINERY: ${broken[*]:-none}"
done
