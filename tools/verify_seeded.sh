#!/usr/bin/env bash
# tools/verify_seeded.sh <dir with patch.diff demo.rs meta.json>
# Confirms in the scratch worktree /tmp/mutverify (never /repo): the patch applies, compiles with
# and without --features verif, the existing suite passes with it, the demo fails with it and
# passes without it. Prints one line CONFIRMED/REJECTED.
set -u
D="$(readlink -f "$1")"
W=/tmp/mutverify
cd "$W" || exit 2
git checkout -q -- . ; rm -rf tests
export CARGO_NET_OFFLINE=true RUST_BACKTRACE=0
git apply "$D/patch.diff" || { echo "REJECTED $D: patch does not apply"; exit 1; }
if git diff --name-only | grep -qvE '^src/'; then echo "REJECTED $D: touches non-src files"; git checkout -q -- .; exit 1; fi
cargo build --offline --features verif >/tmp/mutverify.log 2>&1 || { echo "REJECTED $D: does not build with --features verif"; tail -5 /tmp/mutverify.log; git checkout -q -- .; exit 1; }
suite="$(cargo test --workspace --no-fail-fast --offline 2>&1 | grep -E '^test result')"
if echo "$suite" | grep -q FAILED || [ "$(echo "$suite" | head -1 | grep -c '94 passed')" != 1 ]; then echo "REJECTED $D: suite does not pass with the patch: $suite"; git checkout -q -- .; exit 1; fi
mkdir -p tests; cp "$D/demo.rs" tests/demo.rs
timeout 300 cargo test --offline --test demo >/tmp/mutverify.log 2>&1; with=$?
git checkout -q -- .
timeout 300 cargo test --offline --test demo >/tmp/mutverify.log2 2>&1; without=$?
rm -rf tests
if [ $with -ne 0 ] && [ $without -eq 0 ]; then echo "CONFIRMED $D (demo fails with the patch [rc=$with], passes without; suite 94+42 passes with the patch)"; exit 0; fi
echo "REJECTED $D: demo rc with patch=$with, without=$without"; exit 1
