#!/usr/bin/env python3
"""Prints the compact per-property detection table of DESIGN.md section 8.2 from /verif/seeded/*/meta.json."""
import json, glob, os, collections
per = collections.defaultdict(list)
for d in sorted(glob.glob("/verif/seeded/*")):
    f = os.path.join(d, "meta.json")
    if not os.path.exists(f): continue
    m = json.load(open(f)); per[m["property"]].append((os.path.basename(d), m.get("fired_final", m.get("fired", []))))
print("| property | seeded changes (rounds 1-6) | caught by its own quick check | also fired |")
print("|---|---|---|---|")
tot = own = 0
for p in sorted(per):
    rows = per[p]; caught = [s for s, f in rows if p in f]; missed = [s for s, f in rows if p not in f]
    also = sorted({x for _, f in rows for x in f if x != p})
    tot += len(rows); own += len(caught)
    print(f"| {p} | {len(rows)} | {len(caught)}" + (" (not: " + ", ".join(f"`{s}`" for s in missed) + ")" if missed else "") + f" | {' '.join(also)} |")
print(f"| all | {tot} | {own} | |")
